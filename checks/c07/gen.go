package c07

import (
	"encoding/hex"
	"fmt"
	"io"
	"math/rand/v2"
	"os"
	"path/filepath"
	"sort"
	"strings"
	"time"

	"github.com/hashicorp/raft"
	rdb "github.com/rqlite/rqlite/v10/db"
	"github.com/rqlite/rqlite/v10/snapshot"
	"verif/internal/sqlref"
)

// Group is one full snapshot plus the incremental snapshots that follow it.
type Group struct {
	// FullWALs is the number of WAL files shipped inside the full snapshot
	// itself (the form a snapshot takes when it was installed from a stream of
	// DB + WALs). 0 = plain full snapshot.
	FullWALs int `json:"full_wals"`
	// Incs lists, for every incremental snapshot following the full one, how
	// many WAL files it carries (1..3).
	Incs []int `json:"incs"`
}

// Shape describes a snapshot store, oldest group first. The last group holds
// the newest full snapshot.
type Shape struct {
	Groups []Group `json:"groups"`
	Seed   uint64  `json:"seed"`
	// Numbering, when present, fixes the Raft (index, term) of every generated
	// snapshot, oldest first, instead of drawing them from the seed. It is used
	// for the shapes whose snapshot identifiers change their number of digits
	// inside the set that gets reaped (index 8,9,10,11 / term 9 -> 10), so that
	// the lexical order of the snapshot directory names differs from their
	// chronological order.
	Numbering []IndexTerm `json:"numbering,omitempty"`
}

// IndexTerm is the Raft position given to one generated snapshot.
type IndexTerm struct {
	Index uint64 `json:"index"`
	Term  uint64 `json:"term"`
}

// NSnaps is the number of snapshots the shape describes.
func (s Shape) NSnaps() int {
	n := 0
	for _, g := range s.Groups {
		n += 1 + len(g.Incs)
	}
	return n
}

// Key is the canonical text of a shape.
func (s Shape) Key() string {
	var p []string
	for _, g := range s.Groups {
		p = append(p, fmt.Sprintf("F%d%v", g.FullWALs, g.Incs))
	}
	k := strings.Join(p, "|") + fmt.Sprintf("#%d", s.Seed)
	if len(s.Numbering) > 0 {
		var q []string
		for _, it := range s.Numbering {
			q = append(q, fmt.Sprintf("%d-%d", it.Term, it.Index))
		}
		k += "@" + strings.Join(q, ",")
	}
	return k
}

// SnapInfo describes one generated snapshot.
type SnapInfo struct {
	ID    string `json:"id"`
	Index uint64 `json:"index"`
	Term  uint64 `json:"term"`
	Kind  string `json:"kind"`
	WALs  int    `json:"wals"`
}

// GenResult is what the generator child reports.
type GenResult struct {
	OK    bool       `json:"ok"`
	Err   string     `json:"err,omitempty"`
	Snaps []SnapInfo `json:"snaps"`
	Stmts int        `json:"stmts"`
}

// Workload produces deterministic SQL write batches against a growing schema.
type Workload struct {
	R      *rand.Rand
	tables []string
	nextID map[string]int
	ntab   int
	nidx   int
	Stmts  int
}

// NewWorkload returns a workload driven by r.
func NewWorkload(r *rand.Rand) *Workload {
	return &Workload{R: r, nextID: map[string]int{}}
}

func (w *Workload) text(max int) string {
	n := w.R.IntN(max + 1)
	const al = "abcdefghijklmnopqrstuvwxyz ABCDEFG0123456789'-_%"
	b := make([]byte, n)
	for i := range b {
		b[i] = al[w.R.IntN(len(al))]
	}
	return "'" + strings.ReplaceAll(string(b), "'", "''") + "'"
}

func (w *Workload) blob(max int) string {
	n := w.R.IntN(max + 1)
	b := make([]byte, n)
	for i := range b {
		b[i] = byte(w.R.IntN(256))
	}
	return "x'" + hex.EncodeToString(b) + "'"
}

func (w *Workload) value() string {
	switch w.R.IntN(7) {
	case 0:
		return "NULL"
	case 1:
		return fmt.Sprint(w.R.Int64N(1<<40) - 1<<39)
	case 2:
		return fmt.Sprintf("%g", w.R.NormFloat64()*1e6)
	case 3:
		return w.blob(64)
	case 4:
		if w.R.IntN(6) == 0 {
			return w.text(3000) // overflow pages
		}
		return w.text(40)
	default:
		return w.text(12)
	}
}

// Batch returns n write statements (always at least one real write).
func (w *Workload) Batch(n int) []string {
	var out []string
	newTable := func() {
		w.ntab++
		t := fmt.Sprintf("t%d", w.ntab)
		out = append(out, fmt.Sprintf("CREATE TABLE %s (id INTEGER PRIMARY KEY, a TEXT, b INTEGER, c REAL, d BLOB)", t))
		w.tables = append(w.tables, t)
	}
	if len(w.tables) == 0 {
		newTable()
	}
	for len(out) < n {
		t := w.tables[w.R.IntN(len(w.tables))]
		switch k := w.R.IntN(20); {
		case k < 11:
			rows := 1 + w.R.IntN(6)
			var vs []string
			for i := 0; i < rows; i++ {
				w.nextID[t]++
				vs = append(vs, fmt.Sprintf("(%d,%s,%s,%s,%s)", w.nextID[t], w.value(), w.value(), w.value(), w.value()))
			}
			out = append(out, fmt.Sprintf("INSERT INTO %s(id,a,b,c,d) VALUES %s", t, strings.Join(vs, ",")))
		case k < 14:
			m := 2 + w.R.IntN(5)
			out = append(out, fmt.Sprintf("UPDATE %s SET a=%s, b=%s WHERE id%%%d=%d", t, w.value(), w.value(), m, w.R.IntN(m)))
		case k < 16:
			m := 3 + w.R.IntN(5)
			out = append(out, fmt.Sprintf("DELETE FROM %s WHERE id%%%d=%d", t, m, w.R.IntN(m)))
		case k < 17:
			if len(w.tables) < 5 {
				newTable()
			}
		case k < 18:
			w.nidx++
			col := []string{"a", "b", "c"}[w.R.IntN(3)]
			out = append(out, fmt.Sprintf("CREATE INDEX ix%d ON %s(%s)", w.nidx, t, col))
		case k < 19:
			if len(w.tables) > 2 {
				i := w.R.IntN(len(w.tables))
				out = append(out, "DROP TABLE "+w.tables[i])
				w.tables = append(w.tables[:i], w.tables[i+1:]...)
			}
		default:
			if w.nextID[t] > 0 {
				out = append(out, fmt.Sprintf("REPLACE INTO %s(id,a) VALUES (%d,%s)", t, 1+w.R.IntN(w.nextID[t]), w.text(20)))
			}
		}
	}
	// A guaranteed write so a WAL segment is never empty.
	t := w.tables[0]
	w.nextID[t]++
	out = append(out, fmt.Sprintf("INSERT INTO %s(id,a) VALUES (%d,%s)", t, w.nextID[t], w.text(10)))
	return out
}

// Exec applies statements to an rqlite database object.
func (w *Workload) Exec(d *rdb.DB, stmts []string) error {
	for _, s := range stmts {
		resp, err := d.ExecuteStringStmt(s)
		if err != nil {
			return fmt.Errorf("%s: %w", s, err)
		}
		for _, r := range resp {
			if e := r.GetError(); e != "" {
				return fmt.Errorf("%s: %s", trunc(s), e)
			}
		}
		w.Stmts++
	}
	return nil
}

func trunc(s string) string {
	if len(s) > 120 {
		return s[:120] + "..."
	}
	return s
}

// MakeConfiguration returns a small raft configuration.
func MakeConfiguration(r *rand.Rand) raft.Configuration {
	n := 1 + r.IntN(3)
	var c raft.Configuration
	for i := 0; i < n; i++ {
		c.Servers = append(c.Servers, raft.Server{
			Suffrage: raft.ServerSuffrage(r.IntN(2)),
			ID:       raft.ServerID(fmt.Sprintf("node%d", i+1)),
			Address:  raft.ServerAddress(fmt.Sprintf("localhost:%d", 4002+2*i)),
		})
	}
	return c
}

const ckptTimeout = 20 * time.Second

// generator builds a snapshot store through the real snapshot API from a live
// rqlite database in WAL mode, checkpointed the way store.fsmSnapshot does.
type generator struct {
	w       *Workload
	r       *rand.Rand
	work    string
	live    *rdb.DB
	cm      *rdb.CheckpointManager
	str     *snapshot.Store
	index   uint64
	term    uint64
	cfg     raft.Configuration
	snaps   []SnapInfo
	stageNo int
	fixed   []IndexTerm
}

func (g *generator) advance() {
	if k := len(g.snaps); k < len(g.fixed) {
		g.index, g.term = g.fixed[k].Index, g.fixed[k].Term
		return
	}
	g.index += 1 + uint64(g.r.IntN(40))
	if g.r.IntN(4) == 0 {
		g.term++
	}
}

// walSegment writes a batch and captures the compacted WAL into dir, exactly
// as the incremental branch of store.fsmSnapshot does.
func (g *generator) walSegment(dir string) (string, error) {
	if err := g.w.Exec(g.live, g.w.Batch(2+g.r.IntN(8))); err != nil {
		return "", err
	}
	sd := snapshot.NewStagingDir(dir)
	ww, path, err := sd.CreateWAL()
	if err != nil {
		return "", err
	}
	defer ww.Cancel()
	meta, n, err := g.cm.Checkpoint(ww, ckptTimeout)
	if err != nil {
		return "", fmt.Errorf("checkpoint: %w", err)
	}
	if n == 0 || !meta.Success() {
		return "", fmt.Errorf("checkpoint wrote %d bytes (meta %s)", n, meta)
	}
	if err := ww.Close(); err != nil {
		return "", err
	}
	return path, nil
}

func (g *generator) persist(kind string, wals int, rc io.ReadCloser) error {
	g.advance()
	sink, err := g.str.Create(1, g.index, g.term, g.cfg, 1, nil)
	if err != nil {
		return err
	}
	if err := snapshot.NewStateReader(rc).Persist(sink); err != nil {
		sink.Cancel()
		return fmt.Errorf("persist: %w", err)
	}
	if err := sink.Close(); err != nil {
		return fmt.Errorf("sink close: %w", err)
	}
	g.snaps = append(g.snaps, SnapInfo{ID: sink.ID(), Index: g.index, Term: g.term, Kind: kind, WALs: wals})
	// snapshot IDs carry a millisecond timestamp; keep them distinct and ordered.
	time.Sleep(2 * time.Millisecond)
	return nil
}

func (g *generator) full(nwals int) error {
	if err := g.w.Exec(g.live, g.w.Batch(3+g.r.IntN(10))); err != nil {
		return err
	}
	if meta, _, err := g.cm.Checkpoint(nil, ckptTimeout); err != nil {
		return fmt.Errorf("full checkpoint: %w", err)
	} else if !meta.Success() {
		return fmt.Errorf("full checkpoint did not succeed: %s", meta)
	}
	if nwals == 0 {
		st, err := snapshot.NewSnapshotStreamer(g.live.Path())
		if err != nil {
			return err
		}
		if err := st.Open(); err != nil {
			return err
		}
		return g.persist("full", 0, st)
	}
	// Full snapshot that ships WAL files (what a node stores when a snapshot
	// resolved to DB + WALs is installed): a copy of the checkpointed main
	// file plus the following compacted WAL segments.
	g.stageNo++
	dir := filepath.Join(g.work, fmt.Sprintf("fullwal-%d", g.stageNo))
	if err := os.MkdirAll(dir, 0755); err != nil {
		return err
	}
	base := filepath.Join(dir, "base.db")
	if err := sqlref.CopyFile(g.live.Path(), base); err != nil {
		return err
	}
	var wals []string
	for i := 0; i < nwals; i++ {
		p, err := g.walSegment(dir)
		if err != nil {
			return err
		}
		wals = append(wals, p)
	}
	sort.Strings(wals)
	st, err := snapshot.NewSnapshotStreamer(base, wals...)
	if err != nil {
		return err
	}
	if err := st.Open(); err != nil {
		return err
	}
	return g.persist("full", nwals, st)
}

func (g *generator) incremental(nwals int) error {
	g.stageNo++
	dir := filepath.Join(g.work, fmt.Sprintf("staging-%d", g.stageNo))
	if err := os.MkdirAll(dir, 0755); err != nil {
		return err
	}
	for i := 0; i < nwals; i++ {
		if _, err := g.walSegment(dir); err != nil {
			return err
		}
	}
	st, err := snapshot.NewSnapshotPathStreamer(dir)
	if err != nil {
		return err
	}
	return g.persist("incremental", nwals, st)
}

// Generate builds the store described by sh under out/store and leaves a copy
// of the source database (the state the newest snapshot must resolve to) at
// out/truth.db.
func Generate(sh Shape, out string) (res GenResult) {
	fail := func(err error) GenResult {
		res.Err = err.Error()
		return res
	}
	work := filepath.Join(out, "work")
	storeDir := filepath.Join(out, "store")
	if err := os.MkdirAll(work, 0755); err != nil {
		return fail(err)
	}
	r := rand.New(rand.NewPCG(sh.Seed, 0xc07))
	live, err := rdb.Open(filepath.Join(work, "live.db"), false, true)
	if err != nil {
		return fail(err)
	}
	defer live.Close()
	cm, err := rdb.NewCheckpointManager(live)
	if err != nil {
		return fail(err)
	}
	str, err := snapshot.NewStore(storeDir)
	if err != nil {
		return fail(err)
	}
	defer str.Close()
	str.SetReapThreshold(1 << 30) // generation must never trigger the auto-reaper
	g := &generator{w: NewWorkload(r), r: r, work: work, live: live, cm: cm, str: str,
		index: 10 + uint64(r.IntN(1000)), term: 1 + uint64(r.IntN(5)), cfg: MakeConfiguration(r)}
	if len(sh.Numbering) > 0 {
		if len(sh.Numbering) != sh.NSnaps() {
			return fail(fmt.Errorf("shape numbers %d snapshots but describes %d", len(sh.Numbering), sh.NSnaps()))
		}
		g.fixed = sh.Numbering
	}
	for _, grp := range sh.Groups {
		if err := g.full(grp.FullWALs); err != nil {
			return fail(fmt.Errorf("full: %w", err))
		}
		for _, k := range grp.Incs {
			if err := g.incremental(k); err != nil {
				return fail(fmt.Errorf("incremental: %w", err))
			}
		}
	}
	// After the last checkpoint the main file alone holds the whole state.
	if err := sqlref.CopyFile(live.Path(), filepath.Join(out, "truth.db")); err != nil {
		return fail(err)
	}
	res.OK = true
	res.Snaps = g.snaps
	res.Stmts = g.w.Stmts
	live.Close()
	os.RemoveAll(work)
	return res
}
