// Package c09: the snapshot catalog stays well-formed and full-needed is
// honoured (DESIGN §6 C09).
//
// A worker child owns a real snapshot.Store; the driver sends it one API call
// at a time (create / write / close / cancel / set-full-needed / reap / reopen,
// exit inside sink Close at a vhook point), keeps an abstract catalog, and
// after every call reads the catalog back through List/ListAll/Open/Restore.
package c09

import (
	"errors"
	"fmt"
	"math/rand/v2"
	"os"
	"path/filepath"
	"sort"
	"strings"
	"sync"
	"time"

	"verif/checks/c09/snapgen"
	"verif/internal/sqlref"
	"verif/internal/vf"
)

func init() { vf.Register("C09", "exploration", run) }

const callTimeout = 60 * time.Second

var fullHooks = []string{"sink.close.begin", "sink.close.after_sinkw_close", "sink.close.after_write_meta", "sink.close.after_final_rename", "sink.close.after_set_due_next"}
var incHooks = []string{"sink.close.begin", "sink.close.after_waldir_rename", "sink.close.after_move_wals", "sink.close.after_remove_incoming", "sink.close.after_write_meta", "sink.close.after_final_rename", "sink.close.after_set_due_next"}

var badPayloads = []string{"zero", "len-only", "partial-header", "header-only", "truncated-body", "truncated-last-byte", "extended", "garbage", "inc-extra", "inc-missing-dir"}

// ---- abstract catalog -------------------------------------------------

type msnap struct {
	ID    string
	Term  uint64
	Index uint64
	Kind  string // full | incremental
	NWALs int
	Exp   snapgen.Expect
}

func less(a, b *msnap) bool {
	if a.Term != b.Term {
		return a.Term < b.Term
	}
	if a.Index != b.Index {
		return a.Index < b.Index
	}
	return a.ID < b.ID
}

type model struct {
	snaps []msnap // oldest → newest by (term, index, id)
	flag  bool    // FULL_NEEDED
}

func (m *model) dueFull() bool { return m.flag || len(m.snaps) == 0 }

func (m *model) insert(s msnap) {
	m.snaps = append(m.snaps, s)
	sort.SliceStable(m.snaps, func(i, j int) bool { return less(&m.snaps[i], &m.snaps[j]) })
}

func (m *model) find(id string) int {
	for i := range m.snaps {
		if m.snaps[i].ID == id {
			return i
		}
	}
	return -1
}

// chainWALs is the number of WAL segments snapshot i resolves to.
func (m *model) chainWALs(i int) int {
	if m.snaps[i].Kind == "full" {
		return m.snaps[i].NWALs
	}
	n := 0
	for j := i; j >= 0; j-- {
		n += m.snaps[j].NWALs
		if m.snaps[j].Kind == "full" {
			return n
		}
	}
	return -1 // no full before it
}

func (m *model) shape() string {
	var p []string
	for _, s := range m.snaps {
		p = append(p, fmt.Sprintf("%c%d", strings.ToUpper(s.Kind)[0], s.NWALs))
	}
	f := ""
	if m.flag {
		f = "|need-full"
	}
	return strings.Join(p, " ") + f
}

// ---- operations -------------------------------------------------------

type opSpec struct {
	Type       string `json:"type"` // sink | setfull | reap | reopen
	Payload    string `json:"payload,omitempty"`
	WALs       int    `json:"wals,omitempty"` // own WALs of an install stream
	Ending     string `json:"ending,omitempty"`
	Hook       string `json:"hook,omitempty"`
	Interleave bool   `json:"set_full_before_close,omitempty"`
	Split      int    `json:"split,omitempty"`
	Rel        string `json:"rel,omitempty"` // higher | equal | lower
	Stmts      int    `json:"stmts,omitempty"`
}

func (o opSpec) key() string {
	return fmt.Sprintf("%s/%s/w%d/%s/%s/i%v/%s/s%d", o.Type, o.Payload, o.WALs, o.Ending, o.Hook, o.Interleave, o.Rel, splitClass(o.Split))
}

func splitClass(n int) int {
	switch {
	case n <= 0:
		return 0
	case n == 1:
		return 1
	case n < 64:
		return 2
	default:
		return 3
	}
}

type seqRun struct {
	c   *vf.Ctx
	no  int
	r   *rand.Rand
	tag string

	root, storeDir, scratch, files, log string
	p                                    *vf.Proc

	m          model
	local      *snapgen.Source
	remote     *snapgen.Source
	staging    string
	stagedWALs int
	nfile      int
	// lineageOK: the source database equals the newest listed snapshot plus
	// the staged WALs plus its own WAL. A local full snapshot checkpoints the
	// source, so until that snapshot (or a later reset) is in the store, WAL
	// segments cut from the source do not continue the store's chain. rqlite
	// is in the same position only while a full snapshot is due; the harness
	// re-synchronises (as a restart does) if something else cleared that.
	lineageOK bool

	trace     []any
	dumpCache map[string]string
	streams   map[string]string // stream sha256 -> dump hash of its restore
	aborted   bool
	held      bool
}

func (s *seqRun) file(kind string) string {
	s.nfile++
	return filepath.Join(s.files, fmt.Sprintf("%s-%04d", kind, s.nfile))
}

func (s *seqRun) violation(key, what string) {
	s.held = false
	s.c.Violation(key, what, map[string]any{"sequence": s.no, "tag": s.tag, "ops": s.trace})
}

func (s *seqRun) startWorker() error {
	p, err := vf.StartWorker(false, "c09", nil, []string{"GOMAXPROCS=2"}, s.log)
	if err != nil {
		return err
	}
	s.p = p
	var r wresp
	if err := p.Call(wreq{Op: "open", Dir: s.storeDir}, &r, callTimeout); err != nil {
		return fmt.Errorf("open: %w", err)
	}
	if r.Err != "" {
		return &storeOpenError{r.Err}
	}
	return nil
}

// storeOpenError: snapshot.NewStore itself returned an error.
type storeOpenError struct{ msg string }

func (e *storeOpenError) Error() string { return "NewStore: " + e.msg }

// call sends one request. died=true: the child exited before answering (its
// exit code is returned); that is an observation.
func (s *seqRun) call(q wreq) (r wresp, died bool, code int) {
	t0 := time.Now()
	err := s.p.Call(q, &r, callTimeout)
	if d := time.Since(t0); os.Getenv("VERIF_TIMING") != "" {
		s.c.Count("ms_"+q.Op, d.Milliseconds())
		s.c.Count("n_"+q.Op, 1)
	}
	switch {
	case err == nil:
		return r, false, 0
	case errors.Is(err, vf.ErrProcDied):
		code, ok := s.p.WaitTimeout(30 * time.Second)
		s.p = nil
		if !ok || code < 0 {
			// killed by the harness or by a signal: no verdict from this
			s.abort(fmt.Sprintf("child did not exit on its own (code %d)", code))
			return r, true, -2
		}
		return r, true, code
	default:
		s.c.Inconclusive("worker call: " + err.Error())
		s.p.Quit()
		s.p = nil
		s.aborted = true
		return r, true, -2
	}
}

func (s *seqRun) abort(why string) {
	s.c.Inconclusive(why)
	s.c.Logf("sequence %s#%d aborted: %s", s.tag, s.no, why)
	s.aborted = true
}

// restart brings up a new child on the same store directory (NewStore runs
// check()) and resets the source database the way a restarted node does:
// staging directory dropped, database restored from the newest snapshot.
func (s *seqRun) restart() {
	if err := s.startWorker(); err != nil {
		var oe *storeOpenError
		if errors.As(err, &oe) {
			s.violation("restart:store-does-not-open", "after a child exit the store no longer opens: "+err.Error())
			s.aborted = true
		} else {
			s.abort("harness: restarting child: " + err.Error())
		}
	}
}

func (s *seqRun) resetLocalToNewest() {
	os.RemoveAll(s.staging)
	s.stagedWALs = 0
	s.lineageOK = false
	if n := len(s.m.snaps); n > 0 {
		if err := s.local.ResetTo(s.m.snaps[n-1].Exp.DBFile); err != nil {
			s.abort("harness: reset source: " + err.Error())
			return
		}
		s.lineageOK = true
	}
}

func (s *seqRun) dumpHash(path, sha string) (string, error) {
	if h, ok := s.dumpCache[sha]; ok {
		return h, nil
	}
	d, err := sqlref.DumpFile(path)
	if err != nil {
		return "", err
	}
	s.dumpCache[sha] = d.Hash()
	return d.Hash(), nil
}

type checkCtx struct {
	op         string
	cand       *msnap // snapshot this op tried to create
	allowed    bool   // may cand be listed afterwards?
	whyNot     string // finding key when it is listed although not allowed
	flagBefore bool
	reap       bool
	class      string // how the operation ended (finding-key suffix)
}

// observeAndCheck reads the catalog back and compares it with the model.
func (s *seqRun) observeAndCheck(cc checkCtx) {
	if s.aborted {
		return
	}
	known := make([]string, 0, len(s.streams))
	for k := range s.streams {
		known = append(known, k)
	}
	r, died, code := s.call(wreq{Op: "observe", Scratch: s.scratch, Known: known})
	if died {
		if !s.aborted {
			s.violation("observe:child-exit", fmt.Sprintf("child exited (code %d) while listing/opening/restoring snapshots of an uncorrupted store after %s", code, cc.op))
			s.aborted = true
		}
		return
	}
	o := r.Obs
	if o == nil {
		s.abort("observe: " + r.Err)
		return
	}
	s.c.Eval(1)
	s.held = true
	defer func() {
		if s.held {
			s.c.Held(1)
		}
		for _, so := range o.Snaps {
			if so.RestoreFile != "" {
				os.Remove(so.RestoreFile)
			}
		}
	}()
	s.c.Count("observations", 1)
	s.c.Count("snapshots_resolved", int64(len(o.Snaps)))
	if o.ListAllErr != "" || o.ListErr != "" {
		s.violation("catalog:list-error", fmt.Sprintf("after %s: ListAll err=%q List err=%q", cc.op, o.ListAllErr, o.ListErr))
		s.aborted = true
		return
	}
	listed := map[string]metaLite{}
	for _, m := range o.ListAll {
		listed[m.ID] = m
		if strings.HasSuffix(m.ID, ".tmp") {
			s.violation("catalog:tmp-listed", fmt.Sprintf("after %s: temporary directory %s is listed", cc.op, m.ID))
		}
	}
	// snapshots that disappeared
	var missing []string
	for _, ms := range s.m.snaps {
		if _, ok := listed[ms.ID]; !ok {
			missing = append(missing, ms.ID)
		}
	}
	var extra []string
	for _, m := range o.ListAll {
		if s.m.find(m.ID) < 0 {
			extra = append(extra, m.ID)
		}
	}
	if cc.reap {
		var newestBefore *msnap
		if n := len(s.m.snaps); n > 0 {
			c := s.m.snaps[n-1]
			newestBefore = &c
		}
		for _, id := range missing {
			s.m.snaps = append(s.m.snaps[:s.m.find(id)], s.m.snaps[s.m.find(id)+1:]...)
		}
		for _, id := range extra {
			ml := listed[id]
			if newestBefore == nil || len(extra) > 1 || ml.Term != newestBefore.Term || ml.Index != newestBefore.Index {
				s.violation("reap:unknown-snapshot", fmt.Sprintf("after reap: new snapshot %s (term %d index %d) is not the consolidation of the newest snapshot", id, ml.Term, ml.Index))
				continue
			}
			s.m.insert(msnap{ID: id, Term: ml.Term, Index: ml.Index, Kind: "full", NWALs: 0, Exp: newestBefore.Exp})
			s.c.Count("reap_consolidations", 1)
		}
		if newestBefore != nil {
			if n := len(s.m.snaps); n == 0 {
				s.violation("reap:catalog-emptied", "after reap the store lists no snapshot")
			} else if nw := s.m.snaps[n-1]; nw.Term != newestBefore.Term || nw.Index != newestBefore.Index || nw.Exp.DumpHash != newestBefore.Exp.DumpHash {
				s.violation("reap:newest-changed", fmt.Sprintf("after reap the newest snapshot is %s (term %d index %d), before it was %s (term %d index %d)", nw.ID, nw.Term, nw.Index, newestBefore.ID, newestBefore.Term, newestBefore.Index))
			}
		}
	} else {
		for _, id := range missing {
			s.violation("catalog:snapshot-lost", fmt.Sprintf("after %s: snapshot %s is no longer listed", cc.op, id))
			s.m.snaps = append(s.m.snaps[:s.m.find(id)], s.m.snaps[s.m.find(id)+1:]...)
		}
		for _, id := range extra {
			if cc.cand != nil && id == cc.cand.ID {
				if !cc.allowed {
					s.violation(cc.whyNot, fmt.Sprintf("after %s: snapshot %s is listed although it must not have been accepted (model before: [%s])", cc.op, id, s.m.shape()))
				}
				s.m.insert(*cc.cand)
				s.c.Count("snapshots_installed", 1)
				continue
			}
			if !strings.HasSuffix(id, ".tmp") {
				s.violation("catalog:unknown-snapshot-listed", fmt.Sprintf("after %s: %s is listed but was never completed", cc.op, id))
			}
		}
	}
	installed := cc.cand != nil && s.m.find(cc.cand.ID) >= 0

	// order: ListAll newest first by (term, index, id); List is its head
	var want []string
	for i := len(s.m.snaps) - 1; i >= 0; i-- {
		want = append(want, s.m.snaps[i].ID)
	}
	var got []string
	for _, m := range o.ListAll {
		if s.m.find(m.ID) >= 0 {
			got = append(got, m.ID)
		}
	}
	if strings.Join(got, ",") != strings.Join(want, ",") {
		s.violation("catalog:order", fmt.Sprintf("after %s: ListAll=%v, want newest first by (term,index,id) %v", cc.op, got, want))
	}
	if len(o.ListAll) == 0 {
		if len(o.List) != 0 {
			s.violation("catalog:list-head", fmt.Sprintf("after %s: ListAll empty but List=%v", cc.op, o.List))
		}
	} else if len(o.List) != 1 || o.List[0].ID != o.ListAll[0].ID {
		s.violation("catalog:list-head", fmt.Sprintf("after %s: List=%v is not the head of ListAll=%v", cc.op, o.List, o.ListAll))
	}

	// full-needed
	obsFlag := false
	for _, e := range o.Entries {
		if e == "FULL_NEEDED" {
			obsFlag = true
		}
	}
	if cc.flagBefore && !obsFlag && !installed {
		s.violation("fullneeded:cleared-without-install:"+cc.class, fmt.Sprintf("after %s: FULL_NEEDED was set and is now gone although no snapshot was installed", cc.op))
	}
	if !cc.flagBefore && obsFlag {
		s.violation("fullneeded:set-unexpectedly", fmt.Sprintf("after %s: FULL_NEEDED appeared", cc.op))
	}
	s.m.flag = obsFlag
	wantDue := "incremental"
	if obsFlag || len(o.ListAll) == 0 {
		wantDue = "full"
	}
	if o.DueErr != "" || o.DueNext != wantDue {
		s.violation("duenext:inconsistent", fmt.Sprintf("after %s: DueNext()=%s err=%q, FULL_NEEDED present=%v, %d snapshots listed", cc.op, o.DueNext, o.DueErr, obsFlag, len(o.ListAll)))
	}

	// every listed snapshot resolves to its database
	for _, so := range o.Snaps {
		i := s.m.find(so.ID)
		if i < 0 {
			continue
		}
		ms := s.m.snaps[i]
		switch {
		case so.OpenErr != "":
			s.violation("resolve:open-failed", fmt.Sprintf("after %s: Open(%s) of a listed snapshot fails: %s", cc.op, so.ID, so.OpenErr))
			continue
		case so.MetaID != ms.ID || so.MetaTerm != ms.Term || so.MetaIndex != ms.Index:
			s.violation("resolve:meta-mismatch", fmt.Sprintf("after %s: Open(%s) meta = (%s,%d,%d), want (%s,%d,%d)", cc.op, so.ID, so.MetaID, so.MetaTerm, so.MetaIndex, ms.ID, ms.Term, ms.Index))
		case so.HdrErr != "" || !so.HasDB:
			s.violation("resolve:not-a-full-database", fmt.Sprintf("after %s: stream of %s does not start with one full database: %s", cc.op, so.ID, so.HdrErr))
			continue
		}
		if wantW := s.m.chainWALs(i); so.NWALs != wantW {
			s.violation("resolve:chain-length", fmt.Sprintf("after %s: %s resolves to %d WAL segments, want %d (model [%s])", cc.op, so.ID, so.NWALs, wantW, s.m.shape()))
		}
		if so.MetaSize != so.StreamLen {
			s.c.Count("meta_size_differs_from_stream", 1)
		}
		if so.RestoreErr != "" {
			s.violation("resolve:restore-failed", fmt.Sprintf("after %s: restoring listed snapshot %s fails: %s", cc.op, so.ID, so.RestoreErr))
			continue
		}
		if !so.Restored {
			// identical stream bytes were restored and dumped before
			s.c.Count("streams_unchanged_since_last_restore", 1)
			if h := s.streams[so.StreamSHA]; h != ms.Exp.DumpHash {
				s.violation("resolve:wrong-database", fmt.Sprintf("after %s: %s (%s) streams the bytes of a different database than recorded", cc.op, so.ID, ms.Kind))
			}
			continue
		}
		s.c.Count("restores", 1)
		h, err := s.dumpHash(so.RestoreFile, so.RestoreSHA)
		if err != nil {
			s.violation("resolve:wrong-database", fmt.Sprintf("after %s: restored database of %s cannot be read: %v", cc.op, so.ID, err))
			continue
		}
		s.streams[so.StreamSHA] = h
		if h != ms.Exp.DumpHash {
			a, _ := sqlref.DumpFile(ms.Exp.DBFile)
			b, _ := sqlref.DumpFile(so.RestoreFile)
			diff := ""
			if a != nil && b != nil {
				diff = sqlref.Diff(a, b)
			}
			s.violation("resolve:wrong-database", fmt.Sprintf("after %s: %s (%s) resolves to a different database than recorded:\n%s", cc.op, so.ID, ms.Kind, diff))
		} else if so.RestoreSHA == snapgen.SHA256(ms.Exp.DBFile) {
			s.c.Count("restored_bytes_equal_source_bytes", 1)
		}
	}
}

// nextTI picks (term, index) relative to the model.
func (s *seqRun) nextTI(rel string) (uint64, uint64) {
	n := len(s.m.snaps)
	if n == 0 {
		return uint64(8 + s.r.IntN(2)), uint64([]int{3, 7, 9, 95, 98}[s.r.IntN(5)])
	}
	nw := s.m.snaps[n-1]
	switch rel {
	case "equal":
		return nw.Term, nw.Index
	case "lower":
		old := s.m.snaps[0]
		if old.Index > 1 {
			return old.Term, old.Index - uint64(1+s.r.IntN(int(min(old.Index-1, 3))))
		}
		if old.Term > 1 {
			return old.Term - 1, old.Index + uint64(s.r.IntN(500))
		}
		return nw.Term, nw.Index + 1
	}
	t, i := nw.Term, nw.Index+uint64(1+s.r.IntN(12))
	if s.r.IntN(5) == 0 {
		t++
	}
	return t, i
}

// runOp executes one operation and checks the catalog afterwards.
func (s *seqRun) runOp(o opSpec) {
	if s.aborted {
		return
	}
	before := s.m.shape()
	if len(s.m.snaps) > 0 || o.Type == "sink" {
		s.c.Nontrivial(before + " :: " + o.key())
	}
	s.c.Count("op_"+o.Type, 1)
	switch o.Type {
	case "setfull":
		s.trace = append(s.trace, o)
		r, died, code := s.call(wreq{Op: "setfull"})
		if died {
			s.abort(fmt.Sprintf("child died in SetDueNext (code %d)", code))
			return
		}
		if r.Err != "" {
			s.abort("SetDueNext(Full): " + r.Err)
			return
		}
		s.m.flag = true
		s.observeAndCheck(checkCtx{op: "SetDueNext(Full)", flagBefore: true, class: "set-full"})
	case "reap":
		s.trace = append(s.trace, o)
		r, died, code := s.call(wreq{Op: "reap"})
		if died {
			s.violation("reap:child-exit", fmt.Sprintf("child exited (code %d) inside Reap of an uncorrupted store [%s]", code, before))
			s.restart()
			s.observeAndCheck(checkCtx{op: "reap+exit+reopen", flagBefore: s.m.flag, reap: true, class: "reap"})
			s.resetLocalToNewest()
			return
		}
		if r.Err != "" {
			s.c.Count("reap_errors", 1)
			s.c.Logf("seq %d: reap error: %s [%s]", s.no, r.Err, before)
		}
		s.observeAndCheck(checkCtx{op: fmt.Sprintf("Reap()=(%d,%d,%q)", r.N, r.C, r.Err), flagBefore: s.m.flag, reap: true, class: "reap"})
	case "reopen":
		s.trace = append(s.trace, o)
		r, died, code := s.call(wreq{Op: "reopen"})
		if died || r.Err != "" {
			s.violation("reopen:store-does-not-open", fmt.Sprintf("Close+NewStore failed (died=%v code=%d err=%s) [%s]", died, code, r.Err, before))
			s.aborted = true
			return
		}
		s.observeAndCheck(checkCtx{op: "reopen", flagBefore: s.m.flag, class: "reopen"})
		for _, e := range s.lastEntries() {
			if strings.HasSuffix(e, ".tmp") {
				s.c.Count("tmp_left_after_reopen", 1)
			}
		}
	case "sink":
		s.sinkOp(o)
	}
}

func (s *seqRun) lastEntries() []string {
	ents, _ := os.ReadDir(s.storeDir)
	var out []string
	for _, e := range ents {
		out = append(out, e.Name())
	}
	return out
}

func (s *seqRun) sinkOp(o opSpec) {
	if o.Stmts <= 0 {
		o.Stmts = 3 + s.r.IntN(6)
	}
	// A local full snapshot is only taken when one is due (rqlite takes one
	// only then); make it due first if necessary.
	if o.Payload == "localfull" && !s.m.dueFull() {
		s.runOp(opSpec{Type: "setfull"})
		if s.aborted {
			return
		}
	}
	term, index := s.nextTI(o.Rel)
	w := wreq{Op: "write", Split: o.Split}
	cand := msnap{Term: term, Index: index}
	payloadOK := true
	whyNot := ""
	isInc := false
	hdrLen := func(db string, wals ...string) (int, int) {
		b, err := snapgen.FullStreamBytes(db, wals...)
		if err != nil {
			return 0, 0
		}
		_, he, _, _ := snapgen.ParseStream(b)
		return he, len(b)
	}
	var herr error
	switch o.Payload {
	case "localfull":
		herr = s.local.Mutate(o.Stmts)
		dbf := s.file("full.db")
		if herr == nil {
			herr = s.local.CutFull(dbf)
		}
		os.RemoveAll(s.staging) // the full copy contains everything staged so far
		s.stagedWALs = 0
		s.lineageOK = false // until this snapshot is in the store
		if herr == nil {
			cand.Exp, herr = s.local.State(s.file("expect.db"))
		}
		cand.Kind, cand.NWALs = "full", 0
		w.Kind, w.DB = "full", dbf
	case "localinc":
		isInc = true
		if !s.lineageOK && !s.m.dueFull() {
			// see lineageOK: do what a restarted node does before going on
			s.resetLocalToNewest()
			s.c.Count("harness_source_resynchronised", 1)
			if s.aborted {
				return
			}
		}
		herr = s.local.Mutate(o.Stmts)
		if herr == nil {
			_, herr = s.local.CutWALStaged(s.staging)
			s.stagedWALs++
		}
		if herr == nil {
			cand.Exp, herr = s.local.State(s.file("expect.db"))
		}
		cand.Kind, cand.NWALs = "incremental", s.stagedWALs
		w.Kind, w.Staging = "inc", s.staging
		if s.m.dueFull() {
			payloadOK, whyNot = false, "gate:incremental-accepted-while-full-needed"
		}
	case "install":
		herr = s.remote.Mutate(o.Stmts)
		dbf := s.file("inst.db")
		if herr == nil {
			herr = s.remote.CutFull(dbf)
		}
		for k := 0; k < o.WALs && herr == nil; k++ {
			if herr = s.remote.Mutate(o.Stmts); herr == nil {
				wf := s.file("inst.wal")
				herr = s.remote.CutWALFile(wf)
				w.WALs = append(w.WALs, wf)
			}
		}
		if herr == nil {
			cand.Exp, herr = s.remote.State(s.file("expect.db"))
		}
		cand.Kind, cand.NWALs = "full", o.WALs
		w.Kind, w.DB = "full", dbf
	default: // malformed payloads: must never be installed
		payloadOK, whyNot = false, "invalid-payload-installed:"+o.Payload
		cand.Kind = "full"
		herr = s.remote.Mutate(o.Stmts)
		dbf := s.file("bad.db")
		if herr == nil {
			herr = s.remote.CutFull(dbf)
		}
		he, total := hdrLen(dbf)
		w.Kind, w.DB = "full", dbf
		switch o.Payload {
		case "zero":
			w.Kind, w.DB, w.Raw = "raw", "", nil
		case "len-only":
			w.Cut = 2 + s.r.IntN(3)
		case "partial-header":
			w.Cut = 5 + s.r.IntN(max(he-5, 1))
		case "header-only":
			w.Cut = he
		case "truncated-body":
			w.Cut = he + 1 + s.r.IntN(max(total-he-2, 1))
		case "truncated-last-byte":
			w.Cut = -1
		case "extended":
			w.Extra = make([]byte, 1+s.r.IntN(8))
		case "garbage":
			g := make([]byte, 16+s.r.IntN(200))
			for i := range g {
				g[i] = byte(s.r.UintN(256))
			}
			w.Kind, w.DB, w.Raw = "raw", "", g
		case "inc-extra":
			isInc = true
			d := s.file("empty-staging")
			os.MkdirAll(d, 0755)
			w.Kind, w.DB, w.Staging, w.Extra = "inc", "", d, []byte{0}
		case "inc-missing-dir":
			isInc = true
			w.Kind, w.DB, w.Staging = "inc", "", s.file("no-such-staging")
		}
	}
	if herr != nil {
		s.abort("harness: preparing payload: " + herr.Error())
		return
	}

	// create
	r, died, code := s.call(wreq{Op: "create", Term: term, Index: index})
	if died || r.Err != "" {
		s.abort(fmt.Sprintf("Create failed: died=%v code=%d err=%s", died, code, r.Err))
		return
	}
	cand.ID = r.ID
	w.H = r.H
	h := r.H
	rec := map[string]any{"op": o, "term": term, "index": index, "id": cand.ID}
	s.trace = append(s.trace, rec)
	s.c.Count("payload_"+o.Payload, 1)

	flagBefore := s.m.flag
	opName := fmt.Sprintf("create(%d,%d)+write(%s)", term, index, o.Payload)

	// write
	r, died, code = s.call(w)
	if died {
		s.violation("write:child-exit", fmt.Sprintf("child exited (code %d) inside sink.Write of %s", code, o.Payload))
		s.restart()
		s.observeAndCheck(checkCtx{op: opName + "+exit", cand: &cand, allowed: false, whyNot: "catalog:snapshot-listed-after-exit-in-write", flagBefore: flagBefore, class: "exit-in-write"})
		s.resetLocalToNewest()
		return
	}
	if strings.HasPrefix(r.Err, "harness:") {
		s.abort(r.Err)
		return
	}
	rec["write_err"] = r.Err
	ending := o.Ending
	if r.Err != "" {
		// raft cancels a sink whose Write failed
		s.c.Count("write_rejected", 1)
		if isInc && !payloadOK && o.Payload == "localinc" {
			s.c.Count("gate_rejections", 1)
		}
		ending = "cancel"
		payloadOK = false
		if whyNot == "" {
			whyNot = "catalog:snapshot-listed-after-failed-write"
		}
	} else if o.Payload == "localinc" && !payloadOK {
		s.c.Count("gate_not_rejected_at_write", 1)
	}
	rec["ending"] = ending

	// set-full-needed between write and close
	if o.Interleave && ending != "cancel" {
		r, died, _ := s.call(wreq{Op: "setfull"})
		if died || r.Err != "" {
			s.abort("SetDueNext(Full) between write and close failed")
			return
		}
		s.c.Count("set_full_between_write_and_close", 1)
		flagBefore = true
		s.m.flag = true
		opName += "+SetDueNext(Full)"
		if o.Payload == "localinc" && payloadOK {
			payloadOK, whyNot = false, "gate:set-full-between-write-and-close"
		}
	}

	switch ending {
	case "close":
		r, died, code = s.call(wreq{Op: "close", H: h})
		rec["close_err"] = r.Err
		if died {
			rec["exit"] = code
			s.c.Count("close_exits", 1)
			if !(isInc && code == 1) {
				s.violation("close:child-exit", fmt.Sprintf("child exited (code %d) inside Close of a %s sink", code, o.Payload))
			} else {
				s.c.Count("incremental_close_fatal_exits", 1)
			}
			s.restart()
			s.observeAndCheck(checkCtx{op: opName + "+close(exit)", cand: &cand, allowed: false, whyNot: orStr(whyNot, "catalog:snapshot-listed-after-fatal-close"), flagBefore: flagBefore, class: "fatal-close"})
			s.resetLocalToNewest()
			return
		}
		allowed := payloadOK && r.Err == ""
		wn := whyNot
		if wn == "" {
			wn = "catalog:snapshot-listed-after-failed-close"
		}
		if payloadOK && r.Err != "" {
			s.c.Count("valid_payload_close_failed", 1)
			s.c.Logf("seq %d: close of valid %s failed: %s", s.no, o.Payload, r.Err)
		}
		s.observeAndCheck(checkCtx{op: opName + fmt.Sprintf("+close(%q)", r.Err), cand: &cand, allowed: allowed, whyNot: wn, flagBefore: flagBefore, class: closeClass(r.Err)})
	case "cancel":
		r, died, code = s.call(wreq{Op: "cancel", H: h})
		if died {
			s.abort(fmt.Sprintf("child died in Cancel (code %d)", code))
			return
		}
		s.observeAndCheck(checkCtx{op: opName + "+cancel", cand: &cand, allowed: false, whyNot: orStr(whyNot, "catalog:cancelled-snapshot-listed"), flagBefore: flagBefore, class: "cancel"})
	case "abandon":
		s.call(wreq{Op: "drop", H: h})
		s.observeAndCheck(checkCtx{op: opName + "+abandon", cand: &cand, allowed: false, whyNot: orStr(whyNot, "catalog:unclosed-snapshot-listed"), flagBefore: flagBefore, class: "abandon"})
	case "err-begin", "err-mid":
		point := map[string]string{"err-begin": "sink.close.begin", "err-mid": "sink.close.mid"}[ending]
		r, died, code = s.call(wreq{Op: "close", H: h, ErrAt: point})
		rec["close_err"] = r.Err
		wn := orStr(whyNot, "catalog:snapshot-listed-after-failed-close")
		if died {
			rec["exit"] = code
			if isInc && code == 1 {
				s.c.Count("incremental_close_fatal_exits", 1)
			} else {
				s.violation("close:child-exit", fmt.Sprintf("child exited (code %d) inside a failing Close of a %s sink", code, o.Payload))
			}
			s.restart()
			s.observeAndCheck(checkCtx{op: opName + "+close(fails at " + point + ", exit)", cand: &cand, allowed: false, whyNot: wn, flagBefore: flagBefore, class: "failed-close"})
			s.resetLocalToNewest()
			return
		}
		if r.Err != "" {
			s.c.Count("failed_closes_injected", 1)
		}
		// A close that did not reach the injection point (header never
		// completed) returns nil without installing anything.
		s.observeAndCheck(checkCtx{op: opName + fmt.Sprintf("+close(fails at %s: %q)", point, r.Err), cand: &cand, allowed: false, whyNot: wn, flagBefore: flagBefore, class: "failed-close"})
	case "crash":
		r, died, code = s.call(wreq{Op: "close", H: h, CrashAt: o.Hook})
		rec["close_err"] = r.Err
		if !died {
			// hook not reached (e.g. close of an incomplete header)
			s.c.Count("crash_hook_not_reached", 1)
			s.observeAndCheck(checkCtx{op: opName + fmt.Sprintf("+close(%q)", r.Err), cand: &cand, allowed: payloadOK && r.Err == "", whyNot: orStr(whyNot, "catalog:snapshot-listed-after-failed-close"), flagBefore: flagBefore, class: closeClass(r.Err)})
			return
		}
		rec["exit"] = code
		if code == 197 {
			s.c.Count("crash@"+o.Hook, 1)
			s.c.Count("close_crashes", 1)
		} else if isInc && code == 1 {
			s.c.Count("incremental_close_fatal_exits", 1)
		} else {
			s.violation("close:child-exit", fmt.Sprintf("child exited (code %d) inside Close of a %s sink", code, o.Payload))
		}
		s.restart()
		// After a cut close the snapshot is either absent or complete; both
		// are fine when the payload was acceptable.
		s.observeAndCheck(checkCtx{op: opName + "+close(exit at " + o.Hook + ")+reopen", cand: &cand, allowed: payloadOK, whyNot: orStr(whyNot, "catalog:snapshot-listed-after-crash"), flagBefore: flagBefore, class: "exit-in-close"})
		s.resetLocalToNewest()
		return
	}
	if s.aborted {
		return
	}
	// source bookkeeping, mirroring what a node does
	installed := s.m.find(cand.ID) >= 0
	switch {
	case o.Payload == "localfull" && installed:
		s.lineageOK = s.m.snaps[len(s.m.snaps)-1].ID == cand.ID
	case o.Payload == "localinc" && !s.lineageOK:
		// a refused incremental cut from an out-of-line source: its WAL must
		// not be offered again
		os.RemoveAll(s.staging)
		s.stagedWALs = 0
	case o.Payload == "localinc" && installed:
		s.stagedWALs = 0 // the staging directory was moved into the store
		os.RemoveAll(s.staging)
	case o.Payload == "localinc" && ending == "close" && !installed && w.Staging != "":
		// A close that consumed the staging directory without installing
		// cannot happen without an exit; if the directory is gone the WALs
		// are lost and the node would restore from the store.
		if _, err := os.Stat(s.staging); err != nil && s.stagedWALs > 0 {
			s.resetLocalToNewest()
		}
	case o.Payload == "install" && installed && s.m.snaps[len(s.m.snaps)-1].ID == cand.ID:
		s.resetLocalToNewest() // fsmRestore swaps the installed database in
	}
}

func closeClass(err string) string {
	if err == "" {
		return "close-returned-nil-without-install"
	}
	return "failed-close"
}

func orStr(a, b string) string {
	if a != "" {
		return a
	}
	return b
}

// genOp draws the next random operation.
func (s *seqRun) genOp() opSpec {
	k := s.r.IntN(100)
	switch {
	case k < 6:
		return opSpec{Type: "setfull"}
	case k < 20:
		return opSpec{Type: "reap"}
	case k < 28:
		return opSpec{Type: "reopen"}
	}
	o := opSpec{Type: "sink", Rel: "higher"}
	switch p := s.r.IntN(100); {
	case p < 34:
		o.Payload = "localinc"
	case p < 52:
		o.Payload = "localfull"
	case p < 74:
		o.Payload = "install"
		o.WALs = []int{0, 0, 1, 2, 3}[s.r.IntN(5)]
	default:
		o.Payload = badPayloads[s.r.IntN(len(badPayloads))]
	}
	switch e := s.r.IntN(100); {
	case e < 56:
		o.Ending = "close"
	case e < 66:
		o.Ending = "cancel"
	case e < 74:
		o.Ending = "abandon"
	case e < 78:
		o.Ending = "err-begin"
	case e < 85:
		o.Ending = "err-mid"
	default:
		o.Ending = "crash"
		hooks := fullHooks
		if o.Payload == "localinc" {
			hooks = incHooks
		}
		o.Hook = hooks[s.r.IntN(len(hooks))]
	}
	if (o.Payload == "localinc" || o.Payload == "localfull" || o.Payload == "install") && s.r.IntN(100) < 9 {
		o.Interleave = true
	}
	o.Split = []int{0, 0, 1, 7, 4096, 1 + s.r.IntN(300)}[s.r.IntN(6)]
	if o.Split == 1 && o.Payload != "localinc" && s.r.IntN(3) > 0 {
		o.Split = 0 // byte-wise writes of whole databases are slow; keep some
	}
	switch q := s.r.IntN(100); {
	case q < 12:
		o.Rel = "equal"
	case q < 26 && o.Payload == "install":
		o.Rel = "lower"
	}
	return o
}

func newSeq(c *vf.Ctx, tag string, no int, stream uint64) (*seqRun, error) {
	s := &seqRun{c: c, no: no, tag: tag, r: c.Rand(stream), dumpCache: map[string]string{}, streams: map[string]string{}}
	s.root = vf.TempDir("c09")
	s.storeDir = filepath.Join(s.root, "store")
	s.scratch = filepath.Join(s.root, "scratch")
	s.files = filepath.Join(s.root, "files")
	s.staging = filepath.Join(s.root, "wal-staging")
	s.log = filepath.Join(s.root, "worker.log")
	for _, d := range []string{s.scratch, s.files} {
		os.MkdirAll(d, 0755)
	}
	var err error
	if s.local, err = snapgen.NewSource(filepath.Join(s.root, "local"), s.r); err != nil {
		return s, err
	}
	if s.remote, err = snapgen.NewSource(filepath.Join(s.root, "remote"), s.r); err != nil {
		return s, err
	}
	if err = s.local.Mutate(8); err != nil {
		return s, err
	}
	if err = s.remote.Mutate(8); err != nil {
		return s, err
	}
	return s, s.startWorker()
}

func (s *seqRun) finish() {
	if s.p != nil {
		s.p.Kill()
	}
	if s.local != nil {
		s.local.Close()
	}
	if s.remote != nil {
		s.remote.Close()
	}
	if s.c.NewViolations() > 0 && os.Getenv("VERIF_KEEP") != "" {
		s.c.Logf("keeping %s", s.root)
		return
	}
	os.RemoveAll(s.root)
}

func run(c *vf.Ctx) {
	c.Rule("a case = one snapshot-store API operation applied to a generated store, followed by a full read-back of the catalog (ListAll, List, DueNext, Open+Restore of every listed snapshot) compared with an abstract catalog; " +
		"operations: create+write{local full | local incremental (real compacted WAL in a staging dir) | installed database+0..3 WALs | 10 malformed payloads}+{close | cancel | abandon | close failing at an injected point | process exit at a vhook point inside Close}, optional SetDueNext(Full) between write and close, SetDueNext(Full), Reap, Close+NewStore; " +
		"(term,index) increasing / equal to newest / below oldest; write splits whole/1/7/4096/random. distinct = (catalog shape before, operation descriptor); counted non-trivial when the store is non-empty or the operation is a sink operation")
	c.Assume("expected databases come from a stock-driver SQLite twin (sqlref logical dump); SQLite itself is trusted")
	c.Assume("installs are never generated with a (term,index) that sorts inside an existing full→incremental chain (raft does not install below its own newest snapshot; such an install would re-parent the incrementals)")
	c.Assume("the automatic reaper is disabled (threshold 2^30); reaps are explicit operations; staging directories always hold ≥1 WAL (store.fsmSnapshot guarantees it)")
	c.Assume("after a child exit the harness resets its source database to the newest listed snapshot, as a restarted node restores from its store; it does the same before cutting an incremental when an earlier local full snapshot checkpointed the source but never reached the store and FULL_NEEDED was meanwhile cleared by an unrelated install (a state rqlite itself cannot be in: its install replaces the database)")

	defer snapgen.UseFastTmp("c09")()

	nSeq := c.N(48, 700)
	if v := os.Getenv("VERIF_NSEQ"); v != "" {
		fmt.Sscan(v, &nSeq)
	}
	nOps := c.N(10, 14)
	par := snapgen.Par(c.N(4, 8))

	type job struct {
		tag    string
		no     int
		script []opSpec
	}
	var jobs []job
	for i := 0; i < nSeq; i++ {
		jobs = append(jobs, job{tag: "random", no: i})
	}
	// Enumerated part: every exit point of Close, for both sink kinds, on a
	// set of store shapes, with and without FULL_NEEDED.
	nShapes := c.N(1, 8)
	no := 0
	for sh := 0; sh < nShapes; sh++ {
		for _, kind := range []string{"localfull", "install", "localinc"} {
			hooks := fullHooks
			if kind == "localinc" {
				hooks = incHooks
			}
			for _, hk := range hooks {
				for _, need := range []bool{false, true} {
					if need && kind != "install" {
						continue // localfull always runs with the flag set; an incremental is refused then
					}
					var sc []opSpec
					// prefix: shape sh
					pr := c.Rand(uint64(900000 + sh))
					if pr.IntN(2) == 0 {
						sc = append(sc, opSpec{Type: "sink", Payload: "localfull", Ending: "close", Rel: "higher"})
					} else {
						sc = append(sc, opSpec{Type: "sink", Payload: "install", WALs: pr.IntN(3), Ending: "close", Rel: "higher"})
					}
					for k, n := 0, pr.IntN(3); k < n; k++ {
						sc = append(sc, opSpec{Type: "sink", Payload: "localinc", Ending: "close", Rel: "higher"})
						if pr.IntN(3) == 0 {
							sc = append(sc, opSpec{Type: "sink", Payload: "localinc", Ending: "cancel", Rel: "higher"})
						}
					}
					if need {
						sc = append(sc, opSpec{Type: "setfull"})
					}
					op := opSpec{Type: "sink", Payload: kind, Ending: "crash", Hook: hk, Rel: "higher"}
					if kind == "install" {
						op.WALs = pr.IntN(3)
					}
					sc = append(sc, op)
					// the store must keep working afterwards
					sc = append(sc, opSpec{Type: "sink", Payload: "localinc", Ending: "close", Rel: "higher"},
						opSpec{Type: "sink", Payload: "localfull", Ending: "close", Rel: "higher"},
						opSpec{Type: "sink", Payload: "localinc", Ending: "close", Rel: "higher"},
						opSpec{Type: "reap"})
					jobs = append(jobs, job{tag: "close-exit", no: no, script: sc})
					no++
				}
			}
		}
	}

	// Enumerated part 2: SetDueNext(Full) lands between the last Write and
	// Close of a sink, for each sink kind and ending.
	for _, kind := range []string{"localinc", "localfull", "install"} {
		for _, end := range []string{"close", "cancel", "err-mid", "abandon"} {
			sc := []opSpec{
				{Type: "sink", Payload: "localfull", Ending: "close", Rel: "higher"},
				{Type: "sink", Payload: "localinc", Ending: "close", Rel: "higher"},
				{Type: "sink", Payload: kind, Ending: end, Rel: "higher", Interleave: true},
				{Type: "sink", Payload: "localinc", Ending: "close", Rel: "higher"},
				{Type: "sink", Payload: "localfull", Ending: "close", Rel: "higher"},
				{Type: "sink", Payload: "localinc", Ending: "close", Rel: "higher"},
			}
			jobs = append(jobs, job{tag: "set-full-before-close", no: no, script: sc})
			no++
		}
	}

	var wg sync.WaitGroup
	ch := make(chan job)
	var mu sync.Mutex
	sampled := 0
	for w := 0; w < par; w++ {
		wg.Add(1)
		go func() {
			defer wg.Done()
			for j := range ch {
				stream := uint64(j.no)
				if j.tag != "random" {
					stream += 1 << 32
				}
				s, err := newSeq(c, j.tag, j.no, stream)
				if err != nil {
					c.Inconclusive("harness: starting sequence: " + err.Error())
					c.Logf("sequence start failed: %v", err)
					s.finish()
					continue
				}
				if j.script != nil {
					for _, o := range j.script {
						s.runOp(o)
					}
				} else {
					for k := 0; k < nOps && !s.aborted; k++ {
						s.runOp(s.genOp())
					}
				}
				if !s.aborted {
					s.runOp(opSpec{Type: "reopen"})
				}
				c.Count("sequences", 1)
				mu.Lock()
				if sampled < 6 && (j.no%7 == 0) {
					sampled++
					c.Sample(map[string]any{"sequence": j.no, "tag": j.tag, "ops": s.trace, "final_catalog": s.m.shape()})
				}
				mu.Unlock()
				s.finish()
			}
		}()
	}
	for i, j := range jobs {
		ch <- j
		if i%200 == 199 {
			c.Logf("%d/%d sequences dispatched", i+1, len(jobs))
		}
	}
	close(ch)
	wg.Wait()
	c.Extra("sequences_planned", len(jobs))
	c.Require(int64(c.N(250, 4000)), c.N(100, 1500))
}
