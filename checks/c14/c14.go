// Package c14: non-deterministic SQL is fully and faithfully rewritten
// (DESIGN §6 C14). Statements come from a spec grammar, go through the real
// command/sql.Process in this process, and are evaluated by three evaluator
// children whose SQLite clock is skewed by the LD_PRELOAD shim.
package c14

import (
	"encoding/json"
	"fmt"
	"math"
	"os"
	"path/filepath"
	"regexp"
	"runtime"
	"sort"
	"strings"
	"sync"
	"time"

	"github.com/rqlite/rqlite/v10/command/proto"
	rsql "github.com/rqlite/rqlite/v10/command/sql"
	"verif/internal/vf"
)

func init() {
	vf.Register("C14", "exploration", run)
	vf.RegisterWorker("c14proc", procWorker)
}

const tolMS = 100 // tolerance of the meaning oracle, each side (DESIGN: 0.1 s)

// not multiples of a day, hour or minute: every field of a time value differs
var clockOffsets = []int64{0, 400*86400 + 7*3600 + 13*60 + 27, -(3*365*86400 + 5*3600 + 41*60 + 13)}

type lane struct {
	id    int
	ev    [3]*vf.Proc
	local *evaluator
	log   *os.File
	c     *vf.Ctx
	dead  bool
}

func startLane(c *vf.Ctx, id int, dir string) (*lane, error) {
	ln := &lane{id: id, c: c}
	var err error
	ln.local, err = newEvaluator()
	if err != nil {
		return nil, err
	}
	ln.log, err = os.Create(filepath.Join(dir, fmt.Sprintf("lane%d.cmd.log", id)))
	if err != nil {
		return nil, err
	}
	for i, off := range clockOffsets {
		env := []string{
			"LD_PRELOAD=" + vf.Bin("clockshim.so"),
			fmt.Sprintf("VERIF_SQLITE_CLOCK_OFFSET_S=%d", off),
			"TZ=UTC",
		}
		p, err := vf.StartWorker(false, "c14eval", nil, env, filepath.Join(dir, fmt.Sprintf("lane%d.ev%d.log", id, i)))
		if err != nil {
			return nil, err
		}
		ln.ev[i] = p
	}
	return ln, nil
}

func (ln *lane) stop() {
	for _, p := range ln.ev {
		if p != nil {
			p.Kill()
		}
	}
	if ln.local != nil {
		ln.local.close()
	}
	if ln.log != nil {
		ln.log.Close()
	}
}

// evalRemote sends the items to the three evaluators in parallel.
func (ln *lane) evalRemote(items []item) ([3]*evalResp, error) {
	var out [3]*evalResp
	var errs [3]error
	b, _ := json.Marshal(items[0].SQL)
	fmt.Fprintf(ln.log, "eval %s\n", b)
	var wg sync.WaitGroup
	for i := range ln.ev {
		wg.Add(1)
		go func(i int) {
			defer wg.Done()
			var r evalResp
			errs[i] = ln.ev[i].Call(evalReq{Items: items}, &r, 60*time.Second)
			out[i] = &r
		}(i)
	}
	wg.Wait()
	for i, e := range errs {
		if e != nil {
			return out, fmt.Errorf("evaluator %d: %w", i, e)
		}
		if out[i].Error != "" {
			return out, fmt.Errorf("evaluator %d: %s", i, out[i].Error)
		}
	}
	return out, nil
}

func protoParams(ps []param) []*proto.Parameter {
	var out []*proto.Parameter
	for _, p := range ps {
		pp := &proto.Parameter{Name: p.Name}
		if p.IsS {
			pp.Value = &proto.Parameter_S{S: p.S}
		} else {
			pp.Value = &proto.Parameter_I{I: p.I}
		}
		out = append(out, pp)
	}
	return out
}

type verdict struct {
	Invalid     string            `json:"invalid,omitempty"`
	Kinds       map[string]string `json:"kinds,omitempty"`
	Orig        string            `json:"orig"`
	Rew         string            `json:"rew"`
	Params      []param           `json:"params,omitempty"`
	OrigND      bool              `json:"orig_nondeterministic"`
	Scanned     bool              `json:"-"`
	Unconfirmed int               `json:"-"`
	PinEvals    int               `json:"-"`
}

// processFn runs the rewriter on one statement and reports the text, the
// wall-clock window (unix ms) in which the rewriter read its clock, and error.
type processFn func(sqlText string, ps []param) (rew string, t0, t1 int64, err error)

func processLocal(sqlText string, ps []param) (string, int64, int64, error) {
	st := &proto.Statement{Sql: sqlText, Parameters: protoParams(ps)}
	t0 := time.Now()
	err := rsql.Process([]*proto.Statement{st}, true, true)
	t1 := time.Now()
	return st.Sql, t0.UnixMilli(), t1.UnixMilli() + 1, err
}

// expectedMS is a search-order hint only: the instant a 6-decimal Julian day
// of t would denote.
func expectedMS(ms int64) int64 {
	jd := float64(ms)/86400000.0 + 2440587.5
	jd = math.Round(jd*1e6) / 1e6
	return int64(math.Round((jd - 2440587.5) * 86400000.0))
}

// judge runs all oracles on a batch of specs (one round trip per evaluator).
func (ln *lane) judge(specs []*spec, proc processFn) []*verdict {
	n := len(specs)
	out := make([]*verdict, n)
	ros := make([]*rendered, n)
	t0s, t1s := make([]int64, n), make([]int64, n)
	perrs := make([]error, n)
	items := make([]item, 0, 3*n)
	for i, sp := range specs {
		ro := render(sp, false, 0)
		ros[i] = ro
		v := &verdict{Orig: ro.SQL, Params: ro.Params, Kinds: map[string]string{}}
		out[i] = v
		v.Rew, t0s[i], t1s[i], perrs[i] = proc(ro.SQL, ro.Params)
		if perrs[i] != nil {
			v.Kinds["process-error"] = perrs[i].Error()
		}
		items = append(items,
			item{SQL: ro.SQL, Params: ro.Params, Mode: ro.Mode},
			item{SQL: v.Rew, Params: ro.Params, Mode: ro.Mode},
			item{SQL: v.Rew, Params: ro.Params, Mode: ro.Mode})
	}
	if n == 0 {
		return out
	}
	rs, err := ln.evalRemote(items)
	if err != nil {
		ln.dead = true
		for _, v := range out {
			v.Invalid = "evaluator: " + err.Error()
		}
		return out
	}
	for i := range specs {
		var obs3 [3][]obs
		for e := 0; e < 3; e++ {
			obs3[e] = rs[e].Obs[3*i : 3*i+3]
		}
		ln.decide(specs[i], ros[i], out[i], obs3, t0s[i], t1s[i], perrs[i])
	}
	return out
}

func (ln *lane) decide(sp *spec, ro *rendered, v *verdict, rs [3][]obs, t0, t1 int64, perr error) {
	o0 := &rs[0][0]
	if o0.Err != "" {
		v.Invalid = "generator produced SQL that SQLite rejects: " + o0.Err
		return
	}
	if perr != nil {
		return // the statement was refused; nothing else to compare
	}

	// pinned reference, evaluated in this process (it contains no 'now')
	pins := map[int64][2]string{}
	pinned := func(T int64) (string, string) {
		if ro.NowCalls == 0 {
			T = 0
		}
		if p, ok := pins[T]; ok {
			return p[0], p[1]
		}
		rp := render(sp, true, T)
		o := ln.local.eval(item{SQL: rp.SQL, Params: rp.Params, Mode: rp.Mode})
		v.PinEvals++
		pv := view(&o, rp, mRand)
		pins[T] = [2]string{pv, rp.SQL}
		return pv, rp.SQL
	}
	member := func(got string, first []int64, lo, hi int64) (bool, string) {
		var last string
		for _, T := range first {
			pv, _ := pinned(T)
			if pv == got {
				return true, ""
			}
			last = pv
			if ro.NowCalls == 0 {
				return false, last
			}
		}
		// a reference that is the same at both ends of the window and at the
		// hint does not depend on the instant within it
		pl, _ := pinned(lo)
		ph, _ := pinned(hi)
		if pl == got || ph == got {
			return true, ""
		}
		if p0, _ := pinned(first[0]); pl == ph && pl == p0 {
			return false, last
		}
		v.Scanned = true
		for T := lo; T <= hi; T++ {
			pv, _ := pinned(T)
			if pv == got {
				return true, ""
			}
		}
		return false, last
	}

	// reference self-check: the original under the real, unskewed SQLite clock
	// must be what the pinned reference predicts for some instant of its own
	// evaluation window; otherwise the reference is wrong for this statement.
	ov := view(o0, ro, mRand)
	if ok, near := member(ov, []int64{o0.T0, o0.T1, o0.T0 + 1}, o0.T0-3, o0.T1+3); !ok {
		_, ps := pinned(o0.T0)
		v.Invalid = "reference-mismatch: " + firstDiff(ov, near) + " | pinned: " + ps
		return
	}

	// (a) determinism of the rewritten text: six evaluations, three clocks
	base := view(&rs[0][1], ro, mND)
	for i := 0; i < 3; i++ {
		for j := 1; j <= 2; j++ {
			if x := view(&rs[i][j], ro, mND); x != base {
				if _, seen := v.Kinds["nondeterministic"]; !seen {
					v.Kinds["nondeterministic"] = fmt.Sprintf("rewritten text gives different results (evaluator clock %+dd, run %d): %s",
						clockOffsets[i]/86400, j, firstDiff(base, x))
				}
			}
		}
	}
	ob := view(o0, ro, mND)
	if view(&rs[1][0], ro, mND) != ob || view(&rs[2][0], ro, mND) != ob {
		v.OrigND = true
	}

	// (b) meaning: the rewritten text, evaluated under the unskewed clock, must
	// equal the reference for an instant inside [t0 - tol, t1 + tol]. Only
	// judged when the rewritten text is deterministic: a text that still reads
	// the clock cannot be compared with a reference for one instant.
	if _, nd := v.Kinds["nondeterministic"]; !nd {
		rv := view(&rs[0][1], ro, mRand)
		hint := expectedMS(t0)
		if ok, near := member(rv, []int64{hint, hint - 1, hint + 1, t0, t1}, t0-tolMS, t1+tolMS); !ok {
			d := firstDiff(rv, near)
			if rs[0][1].Err != "" {
				d = "rewritten text fails: " + rs[0][1].Err
			}
			v.Kinds["meaning"] = "rewritten vs reference (got vs want): " + d
		}
	}

	// (c) identity
	claimed := false
	for i := range sp.Calls {
		if sp.Calls[i].claimed() {
			claimed = true
		}
	}
	if !claimed && v.Rew != ro.SQL {
		v.Kinds["not-identical"] = "statement without rewritable calls was altered"
	}
}

// ---------------------------------------------------------------------------
// Reduction of a failing spec to the constructs that are responsible.
// ---------------------------------------------------------------------------

// canonical is the plainest call that can show a failure at a position.
func canonical(kind string, c call, failing string) (call, bool) {
	if failing == "not-identical" {
		if !isTimeFn(c.Fn) || (c.Fn == "date" && c.Form == "lit" && c.N == 0) {
			return c, false
		}
		return call{Fn: "date", Form: "lit", Pos: c.Pos}, true
	}
	var n call
	switch posRole(c.Pos) {
	case "out":
		n = call{Fn: "random", Pos: c.Pos, Gap: c.Gap, Case: c.Case}
	case "cond", "ord":
		n = call{Fn: "date", Form: "now", Pos: c.Pos, Gap: c.Gap, Case: c.Case}
	default:
		n = call{Fn: "date", Form: "now", Pos: c.Pos, Gap: c.Gap, Case: c.Case}
	}
	if n.Fn == c.Fn && n.Form == c.Form && n.Wrap == c.Wrap && len(c.Mods) == 0 {
		return c, false
	}
	return n, true
}

func reductions(sp *spec, kind string) []*spec {
	var out []*spec
	add := func(f func(s *spec) bool) {
		n := sp.clone()
		if f(n) {
			normalize(n)
			out = append(out, n)
		}
	}
	for i := range sp.Feats {
		i := i
		add(func(s *spec) bool { s.Feats = append(s.Feats[:i:i], s.Feats[i+1:]...); return true })
	}
	for i := range sp.Calls {
		i := i
		add(func(s *spec) bool { s.Calls = append(s.Calls[:i:i], s.Calls[i+1:]...); return true })
	}
	rekind := func(to string) {
		add(func(s *spec) bool {
			if s.Kind == to || s.Kind == "select" {
				return false // select is the plainest kind, insert the plainest write
			}
			s.Kind = to
			if to == "select" {
				s.Ret = 0
			}
			var fs []string
			for _, t := range s.Feats {
				if f := featByTag[t]; f != nil && featApplies(f, s) {
					fs = append(fs, t)
				}
			}
			s.Feats = fs
			for i := range s.Calls {
				if !inList(kindPos[to], s.Calls[i].Pos) {
					s.Calls[i].Pos = defaultPos(to)
				}
			}
			return true
		})
	}
	rekind("select")
	rekind("insert")
	add(func(s *spec) bool { // RETURNING forced by a call there: make it explicit, move the call
		moved := false
		for i := range s.Calls {
			if s.Calls[i].Pos == "returning" {
				s.Calls[i].Pos = defaultPos(s.Kind)
				if n, ok := canonical(s.Kind, s.Calls[i], kind); ok {
					s.Calls[i] = n
				}
				moved = true
			}
		}
		if moved && s.Ret == 0 {
			s.Ret = 1
		}
		return moved
	})
	add(func(s *spec) bool {
		if s.Ret == 0 {
			return false
		}
		s.Ret--
		return true
	})
	for i := range sp.Calls {
		i := i
		c := sp.Calls[i]
		add(func(s *spec) bool {
			if c.Pos == defaultPos(s.Kind) {
				return false
			}
			s.Calls[i].Pos = defaultPos(s.Kind)
			return true
		})
		add(func(s *spec) bool {
			n, ok := canonical(s.Kind, c, kind)
			s.Calls[i] = n
			return ok
		})
		add(func(s *spec) bool { ok := c.Gap != ""; s.Calls[i].Gap = ""; return ok })
		add(func(s *spec) bool { ok := c.Case != 0; s.Calls[i].Case = 0; return ok })
		add(func(s *spec) bool { ok := c.Wrap != ""; s.Calls[i].Wrap = ""; return ok })
		add(func(s *spec) bool { ok := len(c.Mods) > 0; s.Calls[i].Mods = nil; return ok })
		for m := range c.Mods {
			m := m
			add(func(s *spec) bool {
				if len(c.Mods) < 2 {
					return false
				}
				s.Calls[i].Mods = append(s.Calls[i].Mods[:m:m], s.Calls[i].Mods[m+1:]...)
				return true
			})
		}
		add(func(s *spec) bool { ok := c.Fn == "strftime" && c.Fmt != "%s"; s.Calls[i].Fmt = "%s"; return ok })
		add(func(s *spec) bool { ok := c.Fn == "randomblob" && c.N != 4; s.Calls[i].N = 4; return ok })
		add(func(s *spec) bool { ok := c.Fn == "timediff" && c.Side != 0; s.Calls[i].Side = 0; return ok })
		add(func(s *spec) bool {
			switch c.Form {
			case "NOW", "Now", "dqnow":
				s.Calls[i].Form = "now"
				return true
			case "col":
				s.Calls[i].Form = "lit"
				s.Calls[i].N = 0
				return true
			}
			return false
		})
		add(func(s *spec) bool { // which function it is only matters for the implicit forms
			if !isTimeFn(c.Fn) || c.Fn == "date" || c.Form == "implicit" {
				return false
			}
			s.Calls[i].Fn, s.Calls[i].Fmt, s.Calls[i].Side = "date", "", 0
			return true
		})
	}
	return out
}

// minCache remembers, per failing kind and spec signature, the reduced spec.
type minCache struct {
	mu sync.Mutex
	m  map[string]*spec
}

func (mc *minCache) get(kind string, sp *spec) *spec {
	mc.mu.Lock()
	defer mc.mu.Unlock()
	return mc.m[kind+"|"+sp.sig()]
}

func (mc *minCache) put(kind string, sigs []string, res *spec) {
	mc.mu.Lock()
	defer mc.mu.Unlock()
	for _, s := range sigs {
		mc.m[kind+"|"+s] = res
	}
}

// jumps are big reductions tried first: one call alone, or one feature with
// the plainest call.
func jumps(sp *spec, kind string) []*spec {
	var out []*spec
	if len(sp.Calls)+len(sp.Feats) <= 1 {
		return nil
	}
	for i := range sp.Calls {
		n := sp.clone()
		n.Calls = []call{n.Calls[i]}
		n.Feats = nil
		normalize(n)
		out = append(out, n)
	}
	for _, f := range sp.Feats {
		n := sp.clone()
		base := call{Fn: "random", Pos: defaultPos(n.Kind)}
		if kind == "not-identical" {
			base = call{Fn: "date", Form: "lit", Pos: defaultPos(n.Kind)}
		} else if posRole(base.Pos) == "cond" {
			base = call{Fn: "date", Form: "now", Pos: base.Pos}
		}
		n.Calls = []call{base}
		n.Feats = []string{f}
		normalize(n)
		out = append(out, n)
	}
	return out
}

func (ln *lane) minimize(sp *spec, kind string, judged *int64, mc *minCache) *spec {
	cur := sp.clone()
	visited := []string{cur.sig()}
	fails := func(cands []*spec) *spec {
		const chunk = 12
		for len(cands) > 0 {
			k := chunk
			if k > len(cands) {
				k = len(cands)
			}
			vs := ln.judge(cands[:k], processLocal)
			*judged += int64(k)
			if os.Getenv("C14_TRACE") != "" {
				for i, v := range vs {
					fmt.Fprintf(os.Stderr, "  cand %-60s kinds=%v invalid=%.80s\n", cands[i].sig(), v.Kinds, v.Invalid)
				}
			}
			for i, v := range vs {
				if v.Invalid == "" {
					if _, bad := v.Kinds[kind]; bad {
						return cands[i]
					}
				}
			}
			cands = cands[k:]
		}
		return nil
	}
	if j := fails(jumps(cur, kind)); j != nil {
		cur = j
		visited = append(visited, cur.sig())
	}
	for round := 0; round < 80; round++ {
		if r := mc.get(kind, cur); r != nil {
			mc.put(kind, visited, r)
			return r
		}
		next := fails(reductions(cur, kind))
		if next == nil {
			break
		}
		cur = next
		visited = append(visited, cur.sig())
	}
	mc.put(kind, visited, cur)
	if *judged > 400 {
		ln.c.Logf("long reduction (%d judgements) %s: %s -> %s", *judged, kind, sp.sig(), cur.sig())
	}
	return cur
}

// ---------------------------------------------------------------------------

type caseResult struct {
	N    int      `json:"case"`
	Spec *spec    `json:"spec"`
	V    *verdict `json:"verdict"`
	Keys map[string]string
	Min  map[string]*spec
}

var jdLit = regexp.MustCompile(`\b\d{7}\.\d{6}\b`)

func run(c *vf.Ctx) {
	time.Local = time.UTC // the rewriter reads time.Now() in the local zone; see the time-zone sub-check
	c.Rule("statements are rendered from specs: kind {select, insert, insert-select, upsert, update, delete, values} x 0..4 calls of {random, randomblob, date, time, datetime, julianday, unixepoch, strftime, timediff} (time value: implicit / 'now' in 5 spellings / parenthesised / bound parameter / literal / column; modifiers, formats, case, gap before '(') placed in {result column, scalar sub-select, CTE body, FROM sub-select, CASE condition, WHERE, IN sub-select, EXISTS, IN list, HAVING, JOIN ON, ORDER BY, LIMIT, compound arm, VALUES, SET, upsert SET/WHERE, RETURNING} with an expression wrapper, plus 0..4 syntactic features (about 120: operators, literals, comments, quoting, joins, windows, multi-statement texts) and decoys (the function words inside strings, identifiers, comments). non-trivial = contains >=1 call the property says is replaced AND (the original was observed to give different results under differently skewed clocks / repeated runs, or the text was changed by the rewriter); distinct by original SQL text")
	c.Assume("evaluator children run stock SQLite (rqlite's go-sqlite3 build) on a fixed 2-table scratch schema; their clocks are skewed by 0 / +400 d 7:13:27 / -(3 y 5:41:13) through the LD_PRELOAD shim, Go's clock is not")
	c.Assume("the reference for 'meaning' is the same spec rendered with every 'now' replaced by an ISO-8601 literal of instant T; it is validated for every case against the original evaluated under the real unskewed SQLite clock (cases where that fails are inconclusive, not violations)")
	c.Assume(fmt.Sprintf("tolerance: the rewritten statement must equal the reference for some millisecond T in [t0-%dms, t1+%dms], t0/t1 = Go wall clock around sql.Process in this process (the rewriter prints a Julian day with 6 decimals = 86.4 ms steps)", tolMS, tolMS))
	c.Assume("raw random values are compared by storage class and length against the reference, exactly between evaluations of the rewritten text; documented exclusions (ORDER BY random(), randomblob(non-literal), CURRENT_*) are compared by shape / as unordered rows")
	c.Assume("driver process local zone forced to UTC; the effect of a non-UTC server zone is probed by a separate child (TZ=Asia/Kolkata)")

	if _, err := os.Stat(vf.Bin("clockshim.so")); err != nil {
		c.Inconclusive("clockshim.so missing")
		c.Logf("clock shim missing: %v", err)
		return
	}
	dir := vf.TempDir("c14")
	defer os.RemoveAll(dir)

	// one lane = three evaluator children; the reference is evaluated in-process
	nLanes := 1
	_ = runtime.NumCPU
	var lanes []*lane
	for i := 0; i < nLanes; i++ {
		ln, err := startLane(c, i, dir)
		if err != nil {
			c.Logf("lane %d: %v", i, err)
			c.Inconclusive("cannot start evaluators")
			return
		}
		lanes = append(lanes, ln)
	}
	defer func() {
		for _, ln := range lanes {
			ln.stop()
		}
	}()

	// the shim must really skew the evaluators, or determinism means nothing
	probe, err := lanes[0].evalRemote([]item{{SQL: "SELECT unixepoch('now')", Mode: "q"}})
	if err != nil {
		c.Inconclusive("evaluator probe failed")
		return
	}
	var secs [3]int64
	for i := range probe {
		fmt.Sscanf(strings.TrimPrefix(probe[i].Obs[0].Rows[0][0], "i:"), "%d", &secs[i])
	}
	skewOK := abs64(secs[1]-secs[0]-clockOffsets[1]) < 5 && abs64(secs[2]-secs[0]-clockOffsets[2]) < 5 && abs64(secs[0]-time.Now().Unix()) < 5
	c.Extra("evaluator_clock_skew_observed_s", []int64{secs[0] - time.Now().Unix(), secs[1] - secs[0], secs[2] - secs[0]})
	if !skewOK {
		c.Logf("clock shim not effective: %v", secs)
		c.Inconclusive("clock shim not effective")
		return
	}

	if c.ReplayFile != "" {
		replay(c, lanes[0])
		return
	}

	n := c.N(1800, 20000)
	specs := systematic()
	c.Extra("systematic_single_construct_cases", len(specs))
	for i := 0; len(specs) < n; i++ {
		specs = append(specs, genSpec(c.Rand(uint64(i))))
	}
	n = len(specs)
	results := make([]*caseResult, n)
	mc := &minCache{m: map[string]*spec{}}
	const batch = 100
	var wg sync.WaitGroup
	for li, ln := range lanes {
		wg.Add(1)
		go func(li int, ln *lane) {
			defer wg.Done()
			// lane li takes batches li, li+L, li+2L, ...
			for start := li * batch; start < n; start += len(lanes) * batch {
				end := start + batch
				if end > n {
					end = n
				}
				if ln.dead {
					for i := start; i < end; i++ {
						results[i] = &caseResult{N: i, Spec: specs[i], V: &verdict{Invalid: "evaluator lane died"}}
					}
					continue
				}
				vs := ln.judge(specs[start:end], processLocal)
				// a failing verdict only counts when an independent second
				// judgement (fresh rewrite, fresh evaluations) fails the same way
				var again []*spec
				var idx []int
				for k, v := range vs {
					if v.Invalid == "" && len(v.Kinds) > 0 {
						again = append(again, specs[start+k])
						idx = append(idx, k)
					}
				}
				for j, v2 := range ln.judge(again, processLocal) {
					v := vs[idx[j]]
					for kind := range v.Kinds {
						if _, ok := v2.Kinds[kind]; !ok || v2.Invalid != "" {
							delete(v.Kinds, kind)
							v.Unconfirmed++
						}
					}
				}
				for k, v := range vs {
					i := start + k
					sp := specs[i]
					cr := &caseResult{N: i, Spec: sp, V: v, Keys: map[string]string{}, Min: map[string]*spec{}}
					results[i] = cr
					if v.Invalid != "" {
						continue
					}
					for kind := range v.Kinds {
						ms := mc.get(kind, sp)
						if ms == nil {
							var judged int64
							ms = ln.minimize(sp, kind, &judged, mc)
							c.Count("reductions_run", 1)
							c.Count("reduction_judgements", judged)
						}
						if len(ms.Calls)+len(ms.Feats) > 2 {
							// not reducible to one or two constructs: only believed
							// when it fails three more times in a row
							ok := true
							for _, v3 := range ln.judge([]*spec{ms, ms, ms}, processLocal) {
								if _, bad := v3.Kinds[kind]; !bad || v3.Invalid != "" {
									ok = false
								}
							}
							if !ok {
								delete(v.Kinds, kind)
								v.Unconfirmed++
								continue
							}
						}
						cr.Keys[kind] = kind + ":" + ms.sig()
						cr.Min[kind] = ms
					}
				}
				if (start/batch)%100 == 0 {
					c.Logf("case %d/%d", start, n)
				}
			}
		}(li, ln)
	}
	wg.Wait()

	// report in case order
	kindCount := map[string]int64{}
	samples := 0
	for i, cr := range results {
		v := cr.V
		c.Eval(1)
		c.Count("reference_evaluations", int64(v.PinEvals))
		if v.Scanned {
			c.Count("cases_needing_millisecond_scan", 1)
		}
		if v.Invalid != "" {
			c.Inconclusive(strings.SplitN(v.Invalid, ":", 2)[0])
			if c.Counter("invalid_logged") < 12 {
				c.Count("invalid_logged", 1)
				c.Logf("case %d no verdict: %s\n    %s", i, v.Invalid, v.Orig)
			}
			continue
		}
		claimed := 0
		for k := range cr.Spec.Calls {
			cl := &cr.Spec.Calls[k]
			c.Count("calls:"+cl.Fn, 1)
			if cl.claimed() {
				claimed++
			}
		}
		if v.Rew != v.Orig {
			c.Count("texts_changed_by_rewriter", 1)
		}
		if v.OrigND {
			c.Count("originals_observed_nondeterministic", 1)
		}
		if claimed > 0 && (v.OrigND || v.Rew != v.Orig) {
			c.Nontrivial(v.Orig)
		}
		if claimed == 0 {
			c.Count("identity_cases", 1)
		}
		if v.Unconfirmed > 0 {
			c.Count("verdicts_not_reproduced", int64(v.Unconfirmed))
			if len(v.Kinds) == 0 {
				c.Inconclusive("failing verdict not reproduced by a second judgement")
				continue
			}
		}
		if len(v.Kinds) == 0 {
			c.Held(1)
			if samples < 4 && claimed > 1 && i%7 == 0 {
				samples++
				c.Sample(map[string]any{"case": i, "original": v.Orig, "rewritten": v.Rew, "verdict": "held", "original_observed_nondeterministic": v.OrigND})
			}
			continue
		}
		kinds := make([]string, 0, len(v.Kinds))
		for k := range v.Kinds {
			kinds = append(kinds, k)
		}
		sort.Strings(kinds)
		for _, kind := range kinds {
			kindCount[kind]++
			key := cr.Keys[kind]
			detail := v.Kinds[kind]
			if kind == "meaning" {
				if m := jdLit.FindAllString(v.Rew, -1); len(m) > 1 {
					d := map[string]bool{}
					for _, x := range m {
						d[x] = true
					}
					if len(d) > 1 {
						key = "meaning:now-differs-within-statement"
					}
				}
			}
			minSQL := ""
			if ms := cr.Min[kind]; ms != nil {
				minSQL = render(ms, false, 0).SQL
			}
			c.Violation(key, fmt.Sprintf("%s | original: %s | rewritten: %s | reduced to: %s", detail, v.Orig, v.Rew, minSQL),
				map[string]any{"case": i, "spec": cr.Spec, "kind": kind, "reduced": cr.Min[kind], "verdict": v})
		}
	}
	for k, n := range kindCount {
		c.Count("failing:"+k, n)
	}

	tzCheck(c, lanes[0])
	stabilityCheck(c, lanes[0])

	c.Require(int64(n/2), n/8)
}

func abs64(x int64) int64 {
	if x < 0 {
		return -x
	}
	return x
}

// ---------------------------------------------------------------------------
// Sub-check: server time zone. sql.Process runs in a child with TZ set to a
// non-UTC zone; the result is judged like any other case.
// ---------------------------------------------------------------------------

type procReq struct {
	SQL    string  `json:"sql"`
	Params []param `json:"params,omitempty"`
}
type procResp struct {
	Rew    string `json:"rew"`
	T0     int64  `json:"t0"`
	T1     int64  `json:"t1"`
	Err    string `json:"err,omitempty"`
	Offset int    `json:"offset"`
}

func procWorker(args []string) {
	vf.ServeJSON(func(raw json.RawMessage) any {
		var req procReq
		if err := json.Unmarshal(raw, &req); err != nil {
			return procResp{Err: err.Error()}
		}
		rew, t0, t1, err := processLocal(req.SQL, req.Params)
		_, off := time.Now().Zone()
		r := procResp{Rew: rew, T0: t0, T1: t1, Offset: off}
		if err != nil {
			r.Err = err.Error()
		}
		return r
	})
}

func tzCheck(c *vf.Ctx, ln *lane) {
	if ln.dead {
		return
	}
	p, err := vf.StartWorker(false, "c14proc", nil, []string{"TZ=Asia/Kolkata"}, "")
	if err != nil {
		c.Logf("tz child: %v", err)
		return
	}
	defer p.Kill()
	offset := 0
	remote := func(sqlText string, ps []param) (string, int64, int64, error) {
		var r procResp
		if err := p.Call(procReq{SQL: sqlText, Params: ps}, &r, 20*time.Second); err != nil {
			return sqlText, 0, 0, nil
		}
		offset = r.Offset
		if r.Err != "" {
			return r.Rew, r.T0, r.T1, fmt.Errorf("%s", r.Err)
		}
		return r.Rew, r.T0, r.T1, nil
	}
	n := c.N(40, 400)
	bad := 0
	for i := 0; i < n; i++ {
		r := c.Rand(uint64(1<<40 + i))
		sp := &spec{Kind: "select", Calls: []call{{Fn: pick(r, []string{"date", "time", "datetime", "julianday", "unixepoch", "strftime"}), Form: "now", Fmt: "%Y-%m-%d %H:%M:%S", Pos: "item"}}}
		v := ln.judge([]*spec{sp}, remote)[0]
		if offset == 0 {
			c.Count("tz_child_zone_not_applied", 1)
			return
		}
		c.Count("tz_cases", 1)
		if v.Invalid != "" {
			continue
		}
		if d, ok := v.Kinds["meaning"]; ok {
			// the same spec must be fine when the rewriter runs in UTC, otherwise
			// the zone is not the cause
			if v2 := ln.judge([]*spec{sp}, processLocal)[0]; v2.Invalid == "" && len(v2.Kinds) == 0 {
				bad++
				c.Violation("meaning:server-local-time-used-as-utc",
					fmt.Sprintf("rewriter running with TZ=Asia/Kolkata (UTC%+ds): %s | original: %s | rewritten: %s", offset, d, v.Orig, v.Rew),
					map[string]any{"spec": sp, "tz": "Asia/Kolkata", "verdict": v})
			} else {
				c.Violation("meaning:"+sp.sig(), d, map[string]any{"spec": sp, "verdict": v})
			}
		}
	}
	c.Count("tz_cases_wrong_instant", int64(bad))
}

// ---------------------------------------------------------------------------
// Sub-check: SQLite evaluates 'now' once per statement. A statement with many
// 'now' calls is processed repeatedly; whenever the rewritten text carries two
// different instants it is evaluated to show the difference.
// ---------------------------------------------------------------------------

func stabilityCheck(c *vf.Ctx, ln *lane) {
	var terms []string
	for i := 0; i < 24; i++ {
		terms = append(terms, "(julianday('now') = julianday('now'))")
	}
	orig := "SELECT " + strings.Join(terms, " + ")
	n := c.N(4000, 60000)
	differing := 0
	for i := 0; i < n; i++ {
		rew, _, _, err := processLocal(orig, nil)
		if err != nil {
			return
		}
		d := map[string]bool{}
		for _, x := range jdLit.FindAllString(rew, -1) {
			d[x] = true
		}
		if len(d) < 2 {
			continue
		}
		differing++
		o := ln.local.eval(item{SQL: rew, Mode: "q"})
		oo := ln.local.eval(item{SQL: orig, Mode: "q"})
		if o.Err == "" && oo.Err == "" && len(o.Rows) == 1 && len(oo.Rows) == 1 && o.Rows[0][0] != oo.Rows[0][0] {
			c.Violation("meaning:now-differs-within-statement",
				fmt.Sprintf("one statement, %d distinct instants after rewriting: original evaluates to %s, rewritten to %s | rewritten: %.300s", len(d), oo.Rows[0][0], o.Rows[0][0], rew),
				map[string]any{"original": orig, "rewritten": rew})
		}
	}
	c.Count("stability_statements_processed", int64(n))
	c.Count("stability_statements_with_two_instants", int64(differing))
}

// ---------------------------------------------------------------------------

func replay(c *vf.Ctx, ln *lane) {
	b, err := os.ReadFile(c.ReplayFile)
	if err != nil {
		c.Logf("replay: %v", err)
		return
	}
	var f struct {
		Key  string `json:"key"`
		Case struct {
			Spec *spec  `json:"spec"`
			Kind string `json:"kind"`
		} `json:"case"`
	}
	if err := json.Unmarshal(b, &f); err != nil || f.Case.Spec == nil {
		c.Logf("replay: no spec in %s (%v)", c.ReplayFile, err)
		return
	}
	v := ln.judge([]*spec{f.Case.Spec}, processLocal)[0]
	c.Eval(1)
	c.Nontrivial(v.Orig)
	c.Nontrivial(v.Rew + " ")
	c.Logf("original : %s\nrewritten: %s\nverdict: %v %s", v.Orig, v.Rew, v.Kinds, v.Invalid)
	if v.Invalid != "" {
		c.Inconclusive(v.Invalid)
		return
	}
	if len(v.Kinds) == 0 {
		c.Held(1)
	}
	for kind, d := range v.Kinds {
		var judged int64
		ms := ln.minimize(f.Case.Spec, kind, &judged, &minCache{m: map[string]*spec{}})
		c.Violation(kind+":"+ms.sig(), d+" | original: "+v.Orig+" | rewritten: "+v.Rew, map[string]any{"spec": f.Case.Spec, "kind": kind, "reduced": ms, "verdict": v})
	}
}
