package c25

// The observed system: a 3-node in-process cluster (harness A) in which every
// node has a real cdc.Service wired as cmd/rqlited does (service created and
// CDC enabled on the Store before the Store opens, service started before the
// node can become leader), all posting to one recording HTTP endpoint.

import (
	"bytes"
	"encoding/json"
	"fmt"
	"io"
	"math/rand/v2"
	"net"
	"net/http"
	"os"
	"path/filepath"
	"regexp"
	"runtime/pprof"
	"strconv"
	"strings"
	"sync"
	"sync/atomic"
	"time"

	"github.com/rqlite/rqlite/v10/cdc"
	cdcregexp "github.com/rqlite/rqlite/v10/cdc/regexp"
	"github.com/rqlite/rqlite/v10/store"
	"verif/internal/hcluster"
)

// ---- recording endpoint ----

type dev struct {
	K   string `json:"k"`
	ID  string `json:"id"`
	Err string `json:"err,omitempty"`
}

type rmsg struct {
	Index  uint64 `json:"index"`
	Events []dev  `json:"events"`
}

type receipt struct {
	Seq     int64  `json:"seq"`
	Node    string `json:"node"`
	Inst    int    `json:"inst"`
	Mode    string `json:"mode"` // ok | 500 | hang | close | aborted | a refusal status (see refusals)
	Msgs    []rmsg `json:"msgs"`
	Hash    string `json:"hash"`
	Bad     string `json:"bad,omitempty"`
	Aborted bool   `json:"aborted,omitempty"` // body not received completely
	NodeID  string `json:"node_id"`           // node_id field of the envelope
}

type leaderEv struct {
	Seq      int64  `json:"seq"`
	Node     string `json:"node"`
	Inst     int    `json:"inst"`
	IsLeader bool   `json:"is_leader"`
}

type endpoint struct {
	mu       sync.Mutex
	seq      *atomic.Int64
	rnd      *rand.Rand
	outage   bool
	calm     bool
	hang     time.Duration
	receipts []receipt
	ln       net.Listener
	srv      *http.Server
}

type wireEnvelope struct {
	NodeID  string `json:"node_id"`
	Payload []struct {
		Index  uint64 `json:"index"`
		Events []struct {
			Op       string          `json:"op"`
			Table    string          `json:"table"`
			NewRowID int64           `json:"new_row_id"`
			OldRowID int64           `json:"old_row_id"`
			Before   json.RawMessage `json:"before"`
			After    json.RawMessage `json:"after"`
			Error    string          `json:"error"`
		} `json:"events"`
	} `json:"payload"`
}

// canonJSON re-encodes an object with sorted keys and numbers kept verbatim.
func canonJSON(raw json.RawMessage) string {
	if len(raw) == 0 || string(raw) == "null" {
		return ""
	}
	dec := json.NewDecoder(bytes.NewReader(raw))
	dec.UseNumber()
	var v any
	if err := dec.Decode(&v); err != nil {
		return "!undecodable:" + string(raw)
	}
	b, _ := json.Marshal(v)
	return string(b)
}

func newEndpoint(seq *atomic.Int64, seed uint64, hang time.Duration) (*endpoint, error) {
	ln, err := net.Listen("tcp", "127.0.0.1:0")
	if err != nil {
		return nil, err
	}
	e := &endpoint{seq: seq, rnd: rand.New(rand.NewPCG(seed, 25)), ln: ln, hang: hang}
	e.srv = &http.Server{Handler: e}
	go e.srv.Serve(ln)
	return e, nil
}

func (e *endpoint) addr() string { return e.ln.Addr().String() }

func (e *endpoint) setOutage(b bool) { e.mu.Lock(); e.outage = b; e.mu.Unlock() }
func (e *endpoint) setCalm(b bool)   { e.mu.Lock(); e.calm = b; e.outage = false; e.mu.Unlock() }

func (e *endpoint) count() int {
	e.mu.Lock()
	defer e.mu.Unlock()
	return len(e.receipts)
}

func (e *endpoint) snapshot() []receipt {
	e.mu.Lock()
	defer e.mu.Unlock()
	return append([]receipt(nil), e.receipts...)
}

func (e *endpoint) ServeHTTP(w http.ResponseWriter, r *http.Request) {
	body, rerr := io.ReadAll(r.Body)
	rc := receipt{}
	if rerr != nil || (r.ContentLength >= 0 && int64(len(body)) != r.ContentLength) {
		// the sender gave up while the body was in transit: not a payload
		rc.Aborted = true
	}
	// path: /cdc/<node>/<inst>
	parts := strings.Split(strings.Trim(r.URL.Path, "/"), "/")
	if len(parts) == 3 {
		rc.Node = parts[1]
		rc.Inst, _ = strconv.Atoi(parts[2])
	}
	var env wireEnvelope
	if err := json.Unmarshal(body, &env); err != nil && !rc.Aborted {
		rc.Bad = fmt.Sprintf("unparsable body (%d bytes, content-length %d): %v", len(body), r.ContentLength, err)
	}
	rc.NodeID = env.NodeID
	for _, m := range env.Payload {
		rm := rmsg{Index: m.Index}
		for _, ev := range m.Events {
			id := fmt.Sprintf("%s|%s|%d|%d", ev.Op, ev.Table, ev.OldRowID, ev.NewRowID)
			rm.Events = append(rm.Events, dev{ID: id, K: id + "|" + canonJSON(ev.Before) + "|" + canonJSON(ev.After), Err: ev.Error})
		}
		rc.Msgs = append(rc.Msgs, rm)
	}
	rc.Hash = fmt.Sprintf("%x", hashBytes(body))

	e.mu.Lock()
	switch {
	case rc.Aborted:
		rc.Mode = "aborted"
	case e.calm:
		rc.Mode = "ok"
	case e.outage:
		rc.Mode = []string{"500", "close", "500", "refuse"}[e.rnd.IntN(4)]
	default:
		switch p := e.rnd.IntN(100); {
		case p < 70:
			rc.Mode = "ok"
		case p < 76:
			rc.Mode = "refuse"
		case p < 88:
			rc.Mode = "500"
		case p < 94:
			rc.Mode = "close"
		default:
			rc.Mode = "hang"
		}
	}
	status := 0
	if rc.Mode == "refuse" {
		// the endpoint does not take the batch and says so with a status that is
		// neither success nor a server error
		status = refusals[e.rnd.IntN(len(refusals))]
		rc.Mode = strconv.Itoa(status)
	}
	rc.Seq = e.seq.Add(1)
	e.receipts = append(e.receipts, rc)
	e.mu.Unlock()

	if status != 0 {
		if status == http.StatusTooManyRequests {
			w.Header().Set("Retry-After", "1")
		}
		w.WriteHeader(status)
		return
	}
	switch rc.Mode {
	case "ok":
		w.WriteHeader(http.StatusOK)
	case "500", "aborted":
		w.WriteHeader(http.StatusInternalServerError)
	case "hang":
		time.Sleep(e.hang)
		w.WriteHeader(http.StatusServiceUnavailable)
	case "close":
		if hj, ok := w.(http.Hijacker); ok {
			if c, _, err := hj.Hijack(); err == nil {
				c.Close()
				return
			}
		}
		w.WriteHeader(http.StatusBadGateway)
	}
}

// refusals are the answers of an endpoint (or of a gateway / rate limiter in
// front of it) that has not taken the batch, expressed as a status outside
// both the success and the server-error range. 300 and 304 carry no Location,
// so the sender's HTTP client hands them over as they are.
var refusals = []int{
	http.StatusTooManyRequests, http.StatusNotFound, http.StatusRequestTimeout, http.StatusUnauthorized,
	http.StatusForbidden, http.StatusRequestEntityTooLarge, http.StatusBadRequest, http.StatusConflict,
	http.StatusMultipleChoices, http.StatusNotModified,
}

// answerClass names the kind of answer a payload got, for violation keys.
func answerClass(mode string) string {
	if n, err := strconv.Atoi(mode); err == nil && n >= 100 && n < 600 {
		return fmt.Sprintf("%dxx", n/100)
	}
	return mode
}

func hashBytes(b []byte) uint64 {
	var h uint64 = 1469598103934665603
	for _, c := range b {
		h ^= uint64(c)
		h *= 1099511628211
	}
	return h
}

// ---- cdc.Cluster adapter ----

// lateCluster is handed to cdc.NewService before the node's cluster service and
// client exist; every call is delegated to the real cdc.CDCCluster, which is set
// before Service.Start (the first caller). The only addition is that leader
// change signals pass through a recorder on their way to the service, so that
// payloads can be attributed to leader tenures without timing assumptions.
type lateCluster struct {
	w    *world
	node string
	inst int
	real *cdc.CDCCluster
}

func (l *lateCluster) RegisterLeaderChange(c chan<- bool) {
	own := make(chan bool, 16)
	l.real.RegisterLeaderChange(own)
	go func() {
		for v := range own {
			l.w.mu.Lock()
			l.w.leaderEvs = append(l.w.leaderEvs, leaderEv{Seq: l.w.seq.Add(1), Node: l.node, Inst: l.inst, IsLeader: v})
			l.w.mu.Unlock()
			select {
			case c <- v:
			case <-time.After(30 * time.Second):
				return // service stopped
			}
		}
	}()
}

func (l *lateCluster) RegisterSnapshotSync(ch chan<- chan struct{}) { l.real.RegisterSnapshotSync(ch) }
func (l *lateCluster) RegisterHWMUpdate(c chan<- uint64)            { l.real.RegisterHWMUpdate(c) }
func (l *lateCluster) BroadcastHighWatermark(v uint64) error        { return l.real.BroadcastHighWatermark(v) }

// ---- world ----

type cdcInst struct {
	svc     *cdc.Service
	lc      *lateCluster
	inst    int
	stopped bool // Stop has been called (it must not be called twice)
}

type world struct {
	cs        caseSpec
	cl        *hcluster.Cluster
	ep        *endpoint
	seq       atomic.Int64
	mu        sync.Mutex
	leaderEvs []leaderEv
	insts     map[string]int
	pending   map[string]*cdcInst
	cdc       map[string]*cdcInst
	tuneErr   error
	re        *regexp.Regexp
}

const transmitTimeout = 500 * time.Millisecond

func (w *world) opts(id string) hcluster.Options {
	dir := filepath.Join(w.cl.Base, id)
	snapThreshold, snapInterval := uint64(20), 300*time.Millisecond
	if w.cs.Directed != "" {
		// only the scripted snapshot
		snapThreshold, snapInterval = 1<<20, time.Hour
	}
	return hcluster.Options{ID: id, Dir: dir, HeartbeatTimeout: time.Second, ElectionTimeout: time.Second, LeaderLease: 800 * time.Millisecond,
		NoSnapshotOnClose: true, SnapshotThreshold: snapThreshold, SnapshotInterval: snapInterval,
		Tune: func(st *store.Store) {
			w.mu.Lock()
			w.insts[id]++
			inst := w.insts[id]
			w.mu.Unlock()
			lc := &lateCluster{w: w, node: id, inst: inst}
			cfg := cdc.DefaultConfig()
			cfg.Endpoint = fmt.Sprintf("http://%s/cdc/%s/%d", w.ep.addr(), id, inst)
			cfg.MaxBatchSz = w.cs.BatchSz
			cfg.MaxBatchDelay = time.Duration(w.cs.BatchDelayMs) * time.Millisecond
			cfg.HighWatermarkInterval = time.Duration(w.cs.HWMms) * time.Millisecond
			cfg.TransmitTimeout = transmitTimeout
			cfg.TransmitMinBackoff = 40 * time.Millisecond
			cfg.TransmitMaxBackoff = 160 * time.Millisecond
			if w.cs.Filter != "" {
				rx := cdcregexp.MustCompile(w.cs.Filter)
				cfg.TableFilter = &rx
			}
			svc, err := cdc.NewService(id, dir, lc, cfg)
			if err != nil {
				w.tuneErr = fmt.Errorf("cdc.NewService %s: %w", id, err)
				return
			}
			if err := st.EnableCDC(svc.C(), w.re, false); err != nil {
				w.tuneErr = fmt.Errorf("EnableCDC %s: %w", id, err)
				return
			}
			w.mu.Lock()
			w.pending[id] = &cdcInst{svc: svc, lc: lc, inst: inst}
			w.mu.Unlock()
		}}
}

// startCDC completes the wiring once the node object exists (before it can have
// become leader) and starts the service.
func (w *world) startCDC(n *hcluster.Node) error {
	if w.tuneErr != nil {
		return w.tuneErr
	}
	w.mu.Lock()
	ci := w.pending[n.Name]
	delete(w.pending, n.Name)
	w.mu.Unlock()
	if ci == nil {
		return fmt.Errorf("no cdc service prepared for %s", n.Name)
	}
	ci.lc.real = cdc.NewCDCCluster(n.Store, n.Cluster, n.Client)
	if err := ci.svc.Start(); err != nil {
		return err
	}
	w.mu.Lock()
	w.cdc[n.Name] = ci
	w.mu.Unlock()
	return nil
}

func (w *world) addNode(id string) (*hcluster.Node, error) {
	n, err := hcluster.NewNode(w.cl.Net, w.opts(id))
	if err != nil {
		return nil, err
	}
	if err := w.startCDC(n); err != nil {
		return nil, err
	}
	first := len(w.cl.Nodes) == 0
	w.cl.Nodes = append(w.cl.Nodes, n)
	if first {
		if err := n.Bootstrap(); err != nil {
			return n, err
		}
		if _, err := n.Store.WaitForLeader(60 * time.Second); err != nil {
			return n, err
		}
		return n, nil
	}
	return n, w.cl.Join(n, true)
}

// restart emulates a crash/restart of one node: it is cut off first (so that
// nothing is being applied), the node is closed without a snapshot, its CDC
// service is stopped (releases fifo.db), and the node is reopened on the same
// directory with a new CDC service instance. (The store is closed before the
// service because cdc.Service.Stop can block for ever when a snapshot-sync
// request races with it: writeToBatcher sits in batcher.Flush() once mainLoop
// has gone. A real crash stops both at once.)
func (w *world) restart(n *hcluster.Node) error {
	w.cl.Net.Isolate(n.Name, w.cl.Names())
	time.Sleep(150 * time.Millisecond)
	w.mu.Lock()
	old := w.cdc[n.Name]
	w.mu.Unlock()
	n.Store.NoSnapshotOnClose = true
	// Store.Close waits for raft's goroutines; hashicorp/raft's replication
	// pipeline can deadlock on shutdown (pipelineSend blocked on a full
	// in-progress channel whose decoder is blocked on a full done channel), so
	// the wait is bounded and a stuck close ends the history without a verdict.
	cerr := make(chan error, 1)
	go func() { cerr <- n.Close() }()
	select {
	case err := <-cerr:
		if err != nil {
			w.cl.Net.HealAll()
			return fmt.Errorf("close: %w", err)
		}
	case <-time.After(90 * time.Second):
		w.cl.Net.HealAll()
		fmt.Fprintf(os.Stderr, "Close of %s did not return within 90 s; goroutines follow\n", n.Name)
		pprof.Lookup("goroutine").WriteTo(os.Stderr, 1)
		return fmt.Errorf("node Close of %s did not return within 90 s", n.Name)
	}
	if old != nil {
		old.stopped = true
		done := make(chan struct{})
		go func() { old.svc.Stop(); close(done) }()
		select {
		case <-done:
		case <-time.After(30 * time.Second):
			w.cl.Net.HealAll()
			fmt.Fprintf(os.Stderr, "cdc.Service.Stop of %s did not return within 30 s; goroutines follow\n", n.Name)
			pprof.Lookup("goroutine").WriteTo(os.Stderr, 1)
			return fmt.Errorf("cdc.Service.Stop of %s did not return within 30 s", n.Name)
		}
	}
	nn, err := w.cl.Restart(n)
	if err != nil {
		w.cl.Net.HealAll()
		return err
	}
	err = w.startCDC(nn)
	w.cl.Net.HealAll()
	return err
}

func (w *world) stopAll() {
	w.mu.Lock()
	var all []*cdcInst
	for _, ci := range w.cdc {
		if !ci.stopped {
			ci.stopped = true
			all = append(all, ci)
		}
	}
	w.mu.Unlock()
	for _, ci := range all {
		ci.svc.Stop()
	}
}
