package c25

// Shadow SQLite: the same requests applied with the stock driver, whose raw
// preupdate/commit hooks tell which row changes each log entry commits and in
// which commit (group) of the entry. No rqlite code is involved.

import (
	"context"
	"encoding/json"
	"fmt"
	"os"
	"regexp"
	"strings"

	sqlite3 "github.com/mattn/go-sqlite3"
	"verif/internal/sqlref"
)

// pev is one expected event in comparable form.
type pev struct {
	K       string `json:"k"`  // full key: op|table|old|new|before|after
	ID      string `json:"id"` // identity only: op|table|old|new
	Phantom bool   `json:"phantom,omitempty"`
}

type rawEv struct {
	op, table string
	oldID     int64
	newID     int64
	oldV      []any
	newV      []any
	cols      []string
	phantom   bool
}

type shadow struct {
	path string
	rc   *sqlref.RefConn
	re   *regexp.Regexp

	cur        []*rawEv   // events of the running statement
	pending    []*rawEv   // events waiting for the next commit (incl. events of failed statements)
	groups     [][]*rawEv // groups closed by a commit during this request
	unresolved []*rawEv
	hookErr    string
}

func openShadow(path string, re *regexp.Regexp) (*shadow, error) {
	rc, err := sqlref.OpenRef(path, false, false)
	if err != nil {
		return nil, err
	}
	s := &shadow{path: path, rc: rc, re: re}
	err = rc.Raw(func(c *sqlite3.SQLiteConn) error {
		c.RegisterPreUpdateHook(func(d sqlite3.SQLitePreUpdateData) { s.preupdate(d) })
		c.RegisterCommitHook(func() int { s.commit(); return 0 })
		return nil
	})
	if err != nil {
		rc.Close()
		return nil, err
	}
	return s, nil
}

func (s *shadow) close() { s.rc.Close() }

// clone copies the database file and opens a second shadow on the copy.
func (s *shadow) clone(path string) (*shadow, error) {
	if err := sqlref.CopyFile(s.path, path); err != nil {
		return nil, err
	}
	return openShadow(path, s.re)
}

func (s *shadow) preupdate(d sqlite3.SQLitePreUpdateData) {
	if s.re != nil && !s.re.MatchString(d.TableName) {
		return
	}
	e := &rawEv{table: d.TableName}
	n := d.Count()
	switch d.Op {
	case sqlite3.SQLITE_INSERT:
		e.op, e.newID = "INSERT", d.NewRowID
	case sqlite3.SQLITE_UPDATE:
		e.op, e.oldID, e.newID = "UPDATE", d.OldRowID, d.NewRowID
	case sqlite3.SQLITE_DELETE:
		e.op, e.oldID = "DELETE", d.OldRowID
	default:
		s.hookErr = fmt.Sprintf("unknown op %d", d.Op)
	}
	if d.Op != sqlite3.SQLITE_INSERT {
		v := make([]any, n)
		if err := d.Old(v...); err != nil {
			s.hookErr = err.Error()
		}
		e.oldV = v
	}
	if d.Op != sqlite3.SQLITE_DELETE {
		v := make([]any, n)
		if err := d.New(v...); err != nil {
			s.hookErr = err.Error()
		}
		e.newV = v
	}
	s.cur = append(s.cur, e)
	s.unresolved = append(s.unresolved, e)
}

// commit closes a group: everything pending plus the events of the statement
// that is committing. (A commit with nothing pending emits nothing.)
func (s *shadow) commit() {
	g := append(append([]*rawEv{}, s.pending...), s.cur...)
	s.pending, s.cur = nil, nil
	if len(g) > 0 {
		s.groups = append(s.groups, g)
	}
}

func (s *shadow) columns(table string) []string {
	rows, err := s.rc.Conn.QueryContext(context.Background(), "SELECT name FROM pragma_table_info(?) ORDER BY cid", table)
	if err != nil {
		return nil
	}
	defer rows.Close()
	var out []string
	for rows.Next() {
		var n string
		rows.Scan(&n)
		out = append(out, n)
	}
	return out
}

func (s *shadow) resolve() {
	cache := map[string][]string{}
	for _, e := range s.unresolved {
		c, ok := cache[e.table]
		if !ok {
			c = s.columns(e.table)
			cache[e.table] = c
		}
		e.cols = c
	}
	s.unresolved = nil
}

// apply runs one request and returns the groups a streamer would emit for this
// log entry (events of failed statements flagged as phantom: they are not row
// changes committed by the entry) plus the per-statement results.
func (s *shadow) apply(rq *reqSpec) ([][]pev, []sqlref.RefRes, error) {
	s.cur, s.pending, s.groups, s.unresolved, s.hookErr = nil, nil, nil, nil, ""
	req := &sqlref.RefReq{Tx: rq.Tx}
	for _, q := range rq.Stmts {
		req.Stmts = append(req.Stmts, sqlref.RefStmt{SQL: q})
	}
	h := &sqlref.RefHooks{
		Before: func(i int) { s.cur = nil },
		After: func(i int, res *sqlref.RefRes) {
			s.resolve()
			if res.Err != "" {
				// default conflict handling: the statement's own changes are undone
				for _, e := range s.cur {
					e.phantom = true
				}
			}
			s.pending = append(s.pending, s.cur...)
			s.cur = nil
		},
		AfterControl: func(q string, err error) {
			s.resolve()
			if q == "ROLLBACK" && err == nil {
				// nothing of this entry commits any more; rqlite forgets the pending
				// events at the next entry's Reset
				s.pending = nil
			}
		},
	}
	res, err := s.rc.Run(req, sqlref.RefVariant{}, h)
	if err != nil {
		return nil, nil, err
	}
	if s.hookErr != "" {
		return nil, nil, fmt.Errorf("shadow hook: %s", s.hookErr)
	}
	if s.rc.InTx() {
		return nil, nil, fmt.Errorf("shadow left a transaction open")
	}
	var out [][]pev
	for _, g := range s.groups {
		var pg []pev
		for _, e := range g {
			pg = append(pg, e.pev())
		}
		out = append(out, pg)
	}
	return out, res, nil
}

func rowJSON(cols []string, vals []any) string {
	if vals == nil {
		return ""
	}
	if len(cols) != len(vals) {
		return fmt.Sprintf("!cols=%d vals=%d", len(cols), len(vals))
	}
	m := map[string]any{}
	for i, c := range cols {
		m[c] = vals[i]
	}
	b, _ := json.Marshal(m)
	return string(b)
}

func (e *rawEv) pev() pev {
	id := fmt.Sprintf("%s|%s|%d|%d", e.op, e.table, e.oldID, e.newID)
	return pev{ID: id, K: id + "|" + rowJSON(e.cols, e.oldV) + "|" + rowJSON(e.cols, e.newV), Phantom: e.phantom}
}

// dump renders schema and content in the same form as dumpCluster.
func (s *shadow) dump() (string, error) {
	ctx := context.Background()
	rows, err := s.rc.Conn.QueryContext(ctx, "SELECT name, type, sql FROM sqlite_master WHERE name NOT LIKE 'sqlite_%' ORDER BY name")
	if err != nil {
		return "", err
	}
	var sb strings.Builder
	var tables []string
	for rows.Next() {
		var name, typ string
		var sqlText *string
		if err := rows.Scan(&name, &typ, &sqlText); err != nil {
			rows.Close()
			return "", err
		}
		st := ""
		if sqlText != nil {
			st = *sqlText
		}
		fmt.Fprintf(&sb, "%s|%s|%s\n", name, typ, st)
		if typ == "table" {
			tables = append(tables, name)
		}
	}
	rows.Close()
	for _, t := range tables {
		fmt.Fprintf(&sb, "== %s\n", t)
		rs, err := s.rc.Conn.QueryContext(ctx, "SELECT rowid, * FROM "+t+" ORDER BY rowid")
		if err != nil {
			return "", err
		}
		cols, _ := rs.Columns()
		for rs.Next() {
			vals := make([]any, len(cols))
			ptrs := make([]any, len(cols))
			for i := range vals {
				ptrs[i] = &vals[i]
			}
			if err := rs.Scan(ptrs...); err != nil {
				rs.Close()
				return "", err
			}
			for i, v := range vals {
				if i > 0 {
					sb.WriteByte(',')
				}
				sb.WriteString(dumpVal(v))
			}
			sb.WriteByte('\n')
		}
		rs.Close()
	}
	return sb.String(), nil
}

func dumpVal(v any) string {
	switch x := v.(type) {
	case nil:
		return "NULL"
	case []byte:
		return string(x)
	case json.Number:
		return x.String()
	default:
		return fmt.Sprint(x)
	}
}

func removeShadowFiles(path string) {
	os.Remove(path)
	os.Remove(path + "-journal")
}
