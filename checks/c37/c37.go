// Package c37: automatic backups upload every change, upload nothing when
// nothing changed, and retry failed uploads (DESIGN §6 C37).
package c37

import (
	"encoding/json"
	"fmt"
	"os"
	"path/filepath"
	"sort"
	"strconv"
	"strings"
	"sync"
	"time"

	"verif/internal/vf"
)

func init() {
	vf.Register("C37", "exploration", run)
	vf.RegisterWorker("c37", worker)
}

const maxParallel = 4

var writeKinds = []string{"execute", "execute", "execute", "execute", "execute", "execute", "request", "request", "request-returning"}

// genSteps builds the script of one run: bursts of tagged writes (in the
// background, so that rounds overlap them), waits counted in upload rounds,
// quiet stretches (no write in flight), strong reads (raft entries that do not
// change the database), uploader restarts, and "flaps": stretches of ticks on
// which the upload-enabled predicate handed to Uploader.Start answers no (in
// rqlited the predicate is Store.IsLeader), combined with changes made while
// disabled, changes racing the switch, a storage outage whose failed upload is
// still outstanding when the uploader is disabled, nothing changed at all, and
// an uploader restart while disabled.
func genSteps(c *vf.Ctx, runNo, rounds int) []step {
	r := c.Rand(uint64(1000 + runNo))
	var out []step
	total := 0
	for total < rounds {
		switch p := r.IntN(25); {
		case p < 8:
			n := 1 + r.IntN(6)
			var ks []string
			for i := 0; i < n; i++ {
				ks = append(ks, writeKinds[r.IntN(len(writeKinds))])
			}
			out = append(out, step{Op: "burst", Kinds: ks})
			w := 1 + r.IntN(3)
			out = append(out, step{Op: "wait", N: w})
			total += w
		case p < 13:
			w := 3 + r.IntN(4)
			out = append(out, step{Op: "quiet", N: w})
			total += w
		case p < 16:
			out = append(out, step{Op: "read"})
			w := 1 + r.IntN(2)
			out = append(out, step{Op: "wait", N: w})
			total += w
		case p < 17:
			out = append(out, step{Op: "restart"})
			w := 2 + r.IntN(3)
			out = append(out, step{Op: "quiet", N: w})
			total += w
		case p < 20:
			// a single write followed by a quiet stretch: the change must be
			// uploaded by the first round that starts after the acknowledgement
			out = append(out, step{Op: "burst", Kinds: []string{writeKinds[r.IntN(len(writeKinds))]}})
			w := 3 + r.IntN(3)
			out = append(out, step{Op: "quiet", N: w})
			total += w
		default:
			// flap: k ticks pass with upload disabled, then it is enabled again and
			// a quiet stretch follows (no further write): whatever was changed and
			// not uploaded successfully must be uploaded by the first round
			burst := func() step {
				n := 1 + r.IntN(3)
				var ks []string
				for i := 0; i < n; i++ {
					ks = append(ks, writeKinds[r.IntN(len(writeKinds))])
				}
				return step{Op: "burst", Kinds: ks}
			}
			k := 1 + r.IntN(4)
			switch r.IntN(7) {
			case 0: // change made while disabled
				out = append(out, step{Op: "quiet", N: 1}, step{Op: "off"}, burst(), step{Op: "join"}, step{Op: "offwait", N: k}, step{Op: "on"})
				total++
			case 1: // change racing the switch
				out = append(out, burst(), step{Op: "off"}, step{Op: "offwait", N: k}, step{Op: "join"}, step{Op: "on"})
			case 2, 6: // upload fails (outage), then disabled with the failure outstanding; the outage ends while disabled
				w := 1 + r.IntN(2)
				out = append(out, step{Op: "storage-fail"}, burst(), step{Op: "quiet", N: w}, step{Op: "off"}, step{Op: "offwait", N: k}, step{Op: "storage-heal"}, step{Op: "on"})
				total += w
			case 3: // nothing changes across the disabled stretch
				out = append(out, step{Op: "quiet", N: 2}, step{Op: "off"}, step{Op: "offwait", N: k}, step{Op: "on"})
				total += 2
			case 4: // uploader restarted while disabled, after a change
				out = append(out, step{Op: "off"}, burst(), step{Op: "join"}, step{Op: "offwait", N: k}, step{Op: "restart"}, step{Op: "offwait", N: 1 + r.IntN(2)}, step{Op: "on"})
			default: // two disabled stretches back to back
				out = append(out, step{Op: "off"}, burst(), step{Op: "join"}, step{Op: "offwait", N: k}, step{Op: "on"}, step{Op: "off"}, step{Op: "offwait", N: 1 + r.IntN(2)}, step{Op: "on"})
			}
			w := 3 + r.IntN(3)
			out = append(out, step{Op: "quiet", N: w})
			total += w
		}
	}
	return out
}

func run(c *vf.Ctx) {
	c.Rule("run = real single-node Store + store.NewProvider(vacuum, compress) + backup.Uploader (interval 30ms) started with a switchable upload-enabled predicate (rqlited passes Store.IsLeader) and a recording storage client; script of ~150 upload rounds generated from the seed: bursts of 1-6 tagged writes in the background (via /db/execute, /db/request, /db/request with RETURNING), waits counted in rounds, quiet stretches, strong reads, uploader restarts, injected storage/provider failures (15%), and flaps: 1-4 ticks on which the predicate answers no (each logged), with a change made while disabled / a change racing the switch / a scripted storage outage whose failed upload is outstanding when the uploader is disabled / no change / an uploader restart while disabled / two disabled stretches back to back, each followed by a quiet stretch. evaluations = rounds judged + uploads examined; non-trivial = round that started with an acknowledged change not yet uploaded (separately: first round after a disabled stretch), or an unchanged round, or a round after a failed one, distinct by (run, round number, class); uploads distinct by (run, label)")
	c.Assume("a round is a LastIndex call that follows a tick on which the predicate answered yes; a LastIndex call after a 'no' is logged and counted, not judged; nothing is expected while disabled, everything outstanding is expected of the first round after re-enabling")
	c.Assume("a write is acknowledged with the raft index reported by ?raft_index; 'changed' = a write acknowledged before the round started whose index is above the label of the last successful upload; 'unchanged' = every write started before the round ended was acknowledged at or below that label")
	c.Assume("an unchanged round that re-uploads because the storage could not report its current ID (injected CurrentID failure after an uploader restart) is recorded, not judged")
	c.Assume("uploaded objects are restored with the stock SQLite driver (sqlref)")
	nRuns := c.N(6, 100)
	rounds := 150
	var specs []spec
	for i := 0; i < nRuns; i++ {
		specs = append(specs, spec{Run: i, Seed: c.Seed, Vacuum: i%2 == 1, Compress: i/2%2 == 1, Steps: genSteps(c, i, rounds), FailPct: 15})
	}
	if c.ReplayFile != "" {
		b, err := os.ReadFile(c.ReplayFile)
		if err != nil {
			panic(err)
		}
		var f struct {
			Case struct {
				Spec spec `json:"spec"`
			} `json:"case"`
		}
		if err := json.Unmarshal(b, &f); err != nil {
			panic(err)
		}
		specs = []spec{f.Case.Spec}
	}
	tmp := vf.TempDir("c37")
	defer os.RemoveAll(tmp)
	sem := make(chan struct{}, maxParallel)
	var wg sync.WaitGroup
	var jmu sync.Mutex
	for _, sp := range specs {
		wg.Add(1)
		go func(sp spec) {
			defer wg.Done()
			sem <- struct{}{}
			defer func() { <-sem }()
			sp.Dir = filepath.Join(tmp, fmt.Sprintf("r%d", sp.Run))
			b, _ := json.Marshal(sp)
			logp := filepath.Join(tmp, fmt.Sprintf("r%d.log", sp.Run))
			out, code, ok := vf.RunWorkerOnce(false, "c37", []string{string(b)}, nil, logp, 10*time.Minute)
			os.Remove(logp)
			jmu.Lock()
			defer jmu.Unlock()
			var res runRes
			if err := json.Unmarshal(out, &res); err != nil || !ok || code != 0 {
				c.Logf("run %d: exit=%d finished=%v decode=%v", sp.Run, code, ok, err)
				c.Inconclusive("worker did not finish cleanly")
				return
			}
			if res.SetupErr != "" || !res.Done {
				c.Logf("run %d: %s", sp.Run, res.SetupErr)
				c.Inconclusive("run incomplete: " + res.SetupErr)
				return
			}
			judge(c, sp, &res)
		}(sp)
	}
	wg.Wait()
	if c.ReplayFile == "" {
		c.Require(int64(nRuns*60), nRuns*20)
	}
}

// ---- oracle over the event log ----

type roundInfo struct {
	No        int
	Inst      int
	Start     int // seq
	End       int // seq of the next round / restart / end
	Li        uint64
	Provide   string // "", "ok", "failed", "failed-injected"
	CurrentID *ev
	Uploads   []ev
	// Off: not a round — LastIndex was called although the uploader had just
	// been told that upload is not enabled. Nothing is expected of it; a
	// successful upload it makes still moves the last uploaded label.
	Off bool
	// OffBefore: ticks answered "not enabled" between the previous round and this one
	OffBefore int
}

func judge(c *vf.Ctx, sp spec, res *runRes) {
	evs := res.Events
	// writes
	type wr struct {
		tag, kind  string
		start, ack int // seq (-1 = never acknowledged)
		idx        uint64
		failed     bool
	}
	writes := map[string]*wr{}
	var order []*wr
	for _, e := range evs {
		switch e.Kind {
		case "write-start":
			w := &wr{tag: e.Tag, kind: e.WK, start: e.Seq, ack: -1}
			writes[e.Tag] = w
			order = append(order, w)
		case "write-ack":
			writes[e.Tag].ack, writes[e.Tag].idx = e.Seq, e.Idx
		case "write-fail":
			writes[e.Tag].failed = true
		}
	}
	// rounds
	var rounds []*roundInfo
	var cur *roundInfo
	closeRound := func(seq int) {
		if cur != nil {
			cur.End = seq
			rounds = append(rounds, cur)
			cur = nil
		}
	}
	offTicks := 0
	for i := range evs {
		e := evs[i]
		switch e.Kind {
		case "round":
			closeRound(e.Seq)
			cur = &roundInfo{No: len(rounds), Inst: e.Inst, Start: e.Seq, Li: e.Li, OffBefore: offTicks}
			offTicks = 0
		case "li-off":
			closeRound(e.Seq)
			cur = &roundInfo{No: len(rounds), Inst: e.Inst, Start: e.Seq, Li: e.Li, Off: true}
			c.Count("lastindex_calls_while_disabled", 1)
		case "tick-off":
			// the uploader asks on the tick, after the previous round returned
			closeRound(e.Seq)
			offTicks++
			c.Count("ticks_disabled", 1)
		case "gate-off":
			c.Count("disabled_stretches", 1)
		case "storage-fail":
			c.Count("storage_outages", 1)
		case "restart", "end":
			closeRound(e.Seq)
		case "provide-end":
			if cur != nil {
				switch {
				case e.Err == "":
					cur.Provide = "ok"
				case e.Inj:
					cur.Provide = "failed-injected"
				default:
					cur.Provide = "failed"
					c.Count("provide_failed_real", 1)
				}
			}
		case "currentid":
			if cur != nil {
				cur.CurrentID = &evs[i]
			}
		case "upload":
			if cur != nil {
				cur.Uploads = append(cur.Uploads, e)
			}
		}
	}
	nOffRounds := 0
	for _, r := range rounds {
		if r.Off {
			nOffRounds++
		}
	}
	c.Count("rounds", int64(len(rounds)-nOffRounds))
	for _, w := range order {
		if w.ack >= 0 {
			c.Count("writes_acknowledged:"+w.kind, 1)
		}
	}
	rep := func(extra map[string]any) map[string]any {
		m := map[string]any{"spec": sp, "vacuum": sp.Vacuum, "compress": sp.Compress}
		for k, v := range extra {
			m[k] = v
		}
		return m
	}
	window := func(lo, hi int) []ev {
		lo = max(0, lo)
		hi = min(len(evs), hi)
		return evs[lo:hi]
	}

	var lastOK uint64 // label of the last successful upload
	prevFailed := false
	sampled, sampledFlap := false, false
	reported := map[string]bool{}
	offSinceOK := 0 // ticks answered "not enabled" since the last successful upload
	for _, r := range rounds {
		if r.Off {
			for i := range r.Uploads {
				if r.Uploads[i].Err == "" {
					c.Count("uploads_ok_while_disabled", 1)
					if l, err := strconv.ParseUint(r.Uploads[i].ID, 10, 64); err == nil {
						lastOK = l
					}
				}
			}
			continue
		}
		offSinceOK += r.OffBefore
		c.Eval(1)
		// classify the round's starting condition
		var pending []*wr // acknowledged before the round started, not covered by lastOK
		unchangedCertain := true
		for _, w := range order {
			if w.start > r.End {
				break
			}
			if w.failed {
				unchangedCertain = false // outcome unknown
				continue
			}
			if w.ack >= 0 && w.ack < r.Start && w.idx > lastOK {
				pending = append(pending, w)
			}
			if w.ack < 0 || w.idx > lastOK {
				unchangedCertain = false
			}
		}
		changed := len(pending) > 0
		var okUp *ev
		failedUp := false
		for i := range r.Uploads {
			if r.Uploads[i].Err == "" {
				okUp = &r.Uploads[i]
			} else {
				failedUp = true
			}
		}
		c.Count("uploads_ok", int64(b2i(okUp != nil)))
		c.Count("uploads_failed_injected", int64(b2i(failedUp)))
		if r.Provide == "failed-injected" {
			c.Count("provide_failed_injected", 1)
		}
		if r.CurrentID != nil {
			if r.CurrentID.Err != "" {
				c.Count("currentid_failed_injected", 1)
			} else if okUp == nil && !failedUp && r.Provide == "ok" {
				c.Count("skipped_because_storage_has_same_id", 1)
			}
		}
		roundFailed := failedUp || strings.HasPrefix(r.Provide, "failed")
		verdict := true
		switch {
		case changed:
			class := "changed"
			if prevFailed {
				class = "changed-after-failed-round"
				c.Count("rounds_after_failed_round", 1)
			}
			c.Count("rounds_changed", 1)
			if r.OffBefore > 0 {
				// first round after a disabled stretch, with a change outstanding
				class += "-first-after-disabled"
				c.Count("rounds_changed_first_after_disabled", 1)
				if prevFailed {
					c.Count("rounds_changed_first_after_disabled_and_failed_round", 1)
				}
			}
			c.Nontrivial(fmt.Sprintf("%d|%d|%s", sp.Run, r.No, class))
			if okUp == nil && !roundFailed {
				kinds := map[string]bool{}
				var tags []string
				for _, w := range pending {
					kinds[w.kind] = true
					if len(tags) < 4 {
						tags = append(tags, fmt.Sprintf("%s(%s)@%d", w.tag, w.kind, w.idx))
					}
				}
				var ks []string
				for k := range kinds {
					ks = append(ks, k)
				}
				sort.Strings(ks)
				how := "no-storage-call"
				var maxPending uint64
				for _, w := range pending {
					maxPending = max(maxPending, w.idx)
				}
				if r.Li < maxPending {
					// the provider's LastIndex is below the index of an acknowledged write
					how = "index-not-advanced"
				} else if r.CurrentID != nil && r.CurrentID.Err == "" && r.Provide == "ok" {
					how = "skipped-by-current-id"
				} else if offSinceOK > 0 {
					// ticks with upload disabled have passed since the last successful upload
					how = "no-storage-call-after-disabled-ticks"
				}
				key := fmt.Sprintf("change-not-uploaded:%s:writes=%s", how, strings.Join(ks, "+"))
				if prevFailed && how != "index-not-advanced" {
					key = "failed-upload-not-retried:" + key
				}
				verdict = false
				if reported[key] {
					// the same unuploaded change usually fails every following round
					// too: one report per key and run, the rest is counted
					c.Count("violating_rounds_not_reported_again", 1)
					break
				}
				reported[key] = true
				c.Violation(key, fmt.Sprintf("run %d (vacuum=%v compress=%v) round %d started (LastIndex=%d) with %d acknowledged writes above the last uploaded label %d (%s), neither the provider nor the storage failed in this round, and nothing was uploaded (%d ticks with upload disabled since that upload, %d directly before this round)",
					sp.Run, sp.Vacuum, sp.Compress, r.No, r.Li, len(pending), lastOK, strings.Join(tags, ", "), offSinceOK, r.OffBefore),
					rep(map[string]any{"round": r, "events": window(r.Start-12, r.End+2)}))
				verdict = false
			}
		case unchangedCertain:
			c.Count("rounds_unchanged", 1)
			if r.OffBefore > 0 {
				c.Count("rounds_unchanged_first_after_disabled", 1)
			}
			c.Nontrivial(fmt.Sprintf("%d|%d|unchanged", sp.Run, r.No))
			if len(r.Uploads) > 0 {
				if r.CurrentID != nil && r.CurrentID.Err != "" {
					c.Count("unchanged_round_reuploaded_after_currentid_failure", 1)
				} else {
					c.Violation("unchanged-round-uploaded", fmt.Sprintf("run %d round %d: every write was acknowledged at or below the last uploaded label %d, yet the round called Upload(id=%s)",
						sp.Run, r.No, lastOK, r.Uploads[0].ID), rep(map[string]any{"round": r, "events": window(r.Start-12, r.End+2)}))
					verdict = false
				}
			}
		default:
			c.Count("rounds_with_writes_in_flight", 1)
		}
		if okUp != nil {
			// the label must be the index read at the start of the round
			if okUp.ID != strconv.FormatUint(r.Li, 10) {
				c.Violation("label-not-round-index", fmt.Sprintf("run %d round %d: LastIndex returned %d but the upload is labelled %q", sp.Run, r.No, r.Li, okUp.ID),
					rep(map[string]any{"round": r}))
				verdict = false
			}
			if l, err := strconv.ParseUint(okUp.ID, 10, 64); err == nil {
				lastOK = l
			}
		}
		if verdict {
			c.Held(1)
		}
		if !sampled && changed && okUp != nil && prevFailed {
			sampled = true
			c.Sample(map[string]any{"run": sp.Run, "vacuum": sp.Vacuum, "compress": sp.Compress, "round": r.No, "last_index": r.Li,
				"pending_writes": len(pending), "after_failed_round": true, "uploaded_id": okUp.ID, "bytes": okUp.N})
		}
		if !sampledFlap && changed && okUp != nil && r.OffBefore > 0 {
			sampledFlap = true
			c.Sample(map[string]any{"run": sp.Run, "vacuum": sp.Vacuum, "compress": sp.Compress, "round": r.No, "last_index": r.Li,
				"pending_writes": len(pending), "after_failed_round": prevFailed, "disabled_ticks_directly_before": r.OffBefore, "uploaded_id": okUp.ID, "bytes": okUp.N})
		}
		if okUp != nil {
			offSinceOK = 0
			prevFailed = false
		} else if roundFailed {
			prevFailed = true
		}
	}
	// uploads
	for _, u := range res.Uploads {
		c.Eval(1)
		c.Count("uploads_examined", 1)
		c.Count("upload_rows_seen", int64(u.Rows))
		c.Nontrivial(fmt.Sprintf("%d|upload|%s|%d", sp.Run, u.ID, u.Seq))
		switch {
		case u.RestoreErr != "":
			v := "plain"
			if sp.Vacuum {
				v = "vacuum"
			}
			if sp.Compress {
				v += "+compress"
			}
			c.Violation("upload-unrestorable:"+v, fmt.Sprintf("run %d: the object uploaded with id %s (%d bytes) does not restore: %s", sp.Run, u.ID, u.Bytes, u.RestoreErr),
				rep(map[string]any{"upload": u}))
		case u.MissingN > 0:
			c.Violation("upload-lacks-change-at-or-below-label", fmt.Sprintf("run %d: the object uploaded with id %s lacks %d acknowledged rows whose raft index is <= %s: %v", sp.Run, u.ID, u.MissingN, u.ID, u.Missing),
				rep(map[string]any{"upload": u}))
		default:
			c.Held(1)
		}
	}
	// final state: after the drain (no injected failures, no writes) everything
	// acknowledged must be covered by the last label — implied by the round rule,
	// recorded for the evidence
	var maxIdx uint64
	for _, w := range order {
		if w.idx > maxIdx {
			maxIdx = w.idx
		}
	}
	if lastOK >= maxIdx {
		c.Count("runs_fully_uploaded_at_end", 1)
	} else {
		c.Count("runs_with_unuploaded_changes_at_end", 1)
	}
}

func b2i(b bool) int {
	if b {
		return 1
	}
	return 0
}
