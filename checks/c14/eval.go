package c14

import (
	"context"
	"database/sql"
	"encoding/hex"
	"encoding/json"
	"fmt"
	"sort"
	"strconv"
	"strings"
	"time"

	_ "github.com/mattn/go-sqlite3"
	"verif/internal/vf"
)

// The evaluator executes SQL texts on a fixed scratch schema, each inside a
// savepoint that is rolled back, and reports what it saw. It contains no rqlite
// code. As a child process it runs under the LD_PRELOAD clock shim, so SQLite's
// 'now' is shifted while Go's clock is not.

const schemaSQL = `
CREATE TABLE t(id INTEGER PRIMARY KEY, a INTEGER, b TEXT, c, d, e, ts TEXT);
INSERT INTO t VALUES
 (1, 10, 'x1', 1.5, NULL, 'q', '2024-01-15 10:20:30'),
 (2, 20, 'random()', NULL, 7, x'00ff', '2020-02-29 23:59:59.500'),
 (3, -5, 'date(''now'')', 'w', 2.5, NULL, '2461000.5'),
 (4, NULL, 'x%y', 3, 'now()', 4, '1999-12-31'),
 (5, 7, 'E', x'ab', 0, 'time(', '2030-06-01T12:00:00');
CREATE TABLE u(k TEXT PRIMARY KEY, v, n INTEGER DEFAULT 0);
INSERT INTO u VALUES ('k1', 1, 0), ('k2', 'v2', 5);
`

type item struct {
	SQL    string  `json:"sql"`
	Params []param `json:"params,omitempty"`
	Mode   string  `json:"mode"`
}

type obs struct {
	Err  string                `json:"err,omitempty"`
	Rows [][]string            `json:"rows,omitempty"`
	RA   int64                 `json:"ra"`
	Dump map[string][][]string `json:"dump,omitempty"`
	T0   int64                 `json:"t0"` // unix ms (Go clock) before / after
	T1   int64                 `json:"t1"`
}

type evalReq struct {
	Items []item `json:"items"`
}
type evalResp struct {
	Obs   []obs  `json:"obs"`
	Error string `json:"error,omitempty"`
	Now   string `json:"now,omitempty"` // SQLite's idea of now (first request only)
}

type evaluator struct {
	db   *sql.DB
	conn *sql.Conn
}

func newEvaluator() (*evaluator, error) {
	db, err := sql.Open("sqlite3", ":memory:")
	if err != nil {
		return nil, err
	}
	db.SetMaxOpenConns(1)
	conn, err := db.Conn(context.Background())
	if err != nil {
		return nil, err
	}
	if _, err := conn.ExecContext(context.Background(), schemaSQL); err != nil {
		return nil, err
	}
	return &evaluator{db: db, conn: conn}, nil
}

func (e *evaluator) close() {
	e.conn.Close()
	e.db.Close()
}

func canon(v any) string {
	switch x := v.(type) {
	case nil:
		return "n"
	case int64:
		return "i:" + strconv.FormatInt(x, 10)
	case float64:
		return "r:" + strconv.FormatFloat(x, 'g', -1, 64)
	case string:
		return "t:" + x
	case []byte:
		return "b:" + hex.EncodeToString(x)
	case bool:
		if x {
			return "i:1"
		}
		return "i:0"
	case time.Time:
		return "t:" + x.UTC().Format("2006-01-02 15:04:05.000")
	}
	return fmt.Sprintf("?:%v", v)
}

func scanAll(rows *sql.Rows) ([][]string, error) {
	cols, err := rows.Columns()
	if err != nil {
		return nil, err
	}
	var out [][]string
	for rows.Next() {
		vals := make([]any, len(cols))
		ptrs := make([]any, len(cols))
		for i := range vals {
			ptrs[i] = &vals[i]
		}
		if err := rows.Scan(ptrs...); err != nil {
			return out, err
		}
		r := make([]string, len(cols))
		for i, v := range vals {
			r[i] = canon(v)
		}
		out = append(out, r)
	}
	return out, rows.Err()
}

func (e *evaluator) dump() map[string][][]string {
	ctx := context.Background()
	d := map[string][][]string{}
	for _, q := range [][2]string{
		{"t", "SELECT id, a, b, c, d, e, ts FROM t ORDER BY id"},
		{"u", "SELECT k, v, n FROM u ORDER BY k"},
	} {
		rows, err := e.conn.QueryContext(ctx, q[1])
		if err != nil {
			d[q[0]] = [][]string{{"dump error: " + err.Error()}}
			continue
		}
		r, _ := scanAll(rows)
		rows.Close()
		d[q[0]] = r
	}
	return d
}

func (e *evaluator) eval(it item) obs {
	ctx := context.Background()
	var o obs
	if _, err := e.conn.ExecContext(ctx, "SAVEPOINT c14"); err != nil {
		o.Err = "savepoint: " + err.Error()
		return o
	}
	args := make([]any, 0, len(it.Params))
	for _, p := range it.Params {
		var v any = p.I
		if p.IsS {
			v = p.S
		}
		if p.Name != "" {
			args = append(args, sql.Named(p.Name, v))
		} else {
			args = append(args, v)
		}
	}
	o.T0 = time.Now().UnixMilli()
	if it.Mode == "q" {
		rows, err := e.conn.QueryContext(ctx, it.SQL, args...)
		if err != nil {
			o.Err = err.Error()
		} else {
			r, err := scanAll(rows)
			rows.Close()
			if err != nil {
				o.Err = err.Error()
			}
			o.Rows = r
		}
	} else {
		res, err := e.conn.ExecContext(ctx, it.SQL, args...)
		if err != nil {
			o.Err = err.Error()
		} else if res != nil {
			o.RA, _ = res.RowsAffected()
		}
	}
	o.T1 = time.Now().UnixMilli()
	o.Dump = e.dump()
	if _, err := e.conn.ExecContext(ctx, "ROLLBACK TO c14; RELEASE c14"); err != nil {
		o.Err += " | rollback: " + err.Error()
	}
	return o
}

func (e *evaluator) evalAll(items []item) []obs {
	out := make([]obs, len(items))
	for i, it := range items {
		out[i] = e.eval(it)
	}
	return out
}

func init() {
	vf.RegisterWorker("c14eval", func(args []string) {
		ev, err := newEvaluator()
		first := true
		vf.ServeJSON(func(raw json.RawMessage) any {
			if err != nil {
				return evalResp{Error: err.Error()}
			}
			var req evalReq
			if e := json.Unmarshal(raw, &req); e != nil {
				return evalResp{Error: e.Error()}
			}
			resp := evalResp{Obs: ev.evalAll(req.Items)}
			if first {
				first = false
				ev.conn.QueryRowContext(context.Background(), "SELECT strftime('%Y-%m-%d %H:%M:%f','now')").Scan(&resp.Now)
			}
			return resp
		})
	})
}

// ---------------------------------------------------------------------------
// Comparison of observations
// ---------------------------------------------------------------------------

// shape of a cell: storage class, plus length for text/blob.
func shape(c string) string {
	if len(c) < 2 {
		return c
	}
	switch c[0] {
	case 't':
		return fmt.Sprintf("t#%d", len(c)-2)
	case 'b':
		return fmt.Sprintf("b#%d", (len(c)-2)/2)
	}
	return c[:1]
}

func cellView(c string, m int, shapeFrom int) string {
	if m >= shapeFrom {
		return shape(c)
	}
	return c
}

// view renders an observation under the cell modes; modes >= shapeFrom are
// reduced to their shape. ordered=false sorts the result rows.
func view(o *obs, rd *rendered, shapeFrom int) string {
	var b strings.Builder
	if o.Err != "" {
		// error texts may legitimately name different tokens; keep the class only
		b.WriteString("ERR")
		return b.String()
	}
	rows := make([]string, len(o.Rows))
	for i, r := range o.Rows {
		cs := make([]string, len(r))
		for j, c := range r {
			m := mExact
			if j < len(rd.ResModes) {
				m = rd.ResModes[j]
			}
			cs[j] = cellView(c, m, shapeFrom)
		}
		rows[i] = strings.Join(cs, "|")
	}
	if !rd.Ordered {
		sort.Strings(rows)
	}
	fmt.Fprintf(&b, "rows=%d\n", len(rows))
	for _, r := range rows {
		b.WriteString(r)
		b.WriteByte('\n')
	}
	if rd.Mode == "x" {
		fmt.Fprintf(&b, "ra=%d\n", o.RA)
	}
	for _, tab := range []string{"t", "u"} {
		tm := rd.TabModes[tab]
		for _, r := range o.Dump[tab] {
			cs := make([]string, len(r))
			for j, c := range r {
				m := mExact
				if j < len(tm) {
					m = tm[j]
				}
				cs[j] = cellView(c, m, shapeFrom)
			}
			b.WriteString(tab + ":" + strings.Join(cs, "|") + "\n")
		}
	}
	return b.String()
}

func firstDiff(a, b string) string {
	al, bl := strings.Split(a, "\n"), strings.Split(b, "\n")
	for i := 0; i < len(al) || i < len(bl); i++ {
		var x, y string
		if i < len(al) {
			x = al[i]
		}
		if i < len(bl) {
			y = bl[i]
		}
		if x != y {
			if len(x) > 160 {
				x = x[:160] + "…"
			}
			if len(y) > 160 {
				y = y[:160] + "…"
			}
			return fmt.Sprintf("%q vs %q", x, y)
		}
	}
	return ""
}
