// Package c35: arbitrary bytes on the inter-node port cannot crash a node
// (DESIGN §6 C35).
package c35

import (
	"encoding/binary"
	"encoding/json"
	"fmt"
	"math/rand/v2"
	"net"
	"net/url"
	"os"
	"path/filepath"
	"strconv"
	"strings"
	"time"

	cproto "github.com/rqlite/rqlite/v10/cluster/proto"
	cmdproto "github.com/rqlite/rqlite/v10/command/proto"
	"google.golang.org/protobuf/proto"
	"verif/internal/procnode"
	"verif/internal/vf"
)

func init() { vf.Register("C35", "exploration", run) }

type stream struct {
	Class  string `json:"class"`
	Desc   string `json:"desc"`
	Header byte   `json:"mux_header"`
	Bytes  []byte `json:"-"`
	Hex    string `json:"hex_prefix"`
	HoldMs int    `json:"hold_ms"` // keep the connection open this long after writing
	Conns  int    `json:"conns"`   // number of parallel connections sending this stream
}

func le64(v uint64) []byte {
	b := make([]byte, 8)
	binary.LittleEndian.PutUint64(b, v)
	return b
}

func frame(c *cproto.Command) []byte {
	p, _ := proto.Marshal(c)
	return append(le64(uint64(len(p))), p...)
}

func genStreams(c *vf.Ctx) []stream {
	r := c.Rand(1)
	var out []stream
	rnd := func(n int) []byte {
		b := make([]byte, n)
		for i := range b {
			b[i] = byte(r.IntN(256))
		}
		return b
	}
	add := func(class, desc string, hdr byte, b []byte, hold, conns int) {
		h := fmt.Sprintf("%x", b)
		if len(h) > 64 {
			h = h[:64] + "…"
		}
		out = append(out, stream{Class: class, Desc: desc, Header: hdr, Bytes: b, Hex: h, HoldMs: hold, Conns: conns})
	}
	// every command type with missing payload, without and with (bogus/real) credentials
	for t := 0; t <= 15; t++ {
		add("nil-payload", fmt.Sprintf("command type %d, no payload, no credentials", t), 2, frame(&cproto.Command{Type: cproto.Command_Type(t)}), 150, 1)
		add("nil-payload", fmt.Sprintf("command type %d, no payload, admin credentials", t), 2, frame(&cproto.Command{Type: cproto.Command_Type(t), Credentials: &cproto.Credentials{Username: "admin", Password: "secret"}}), 150, 1)
		add("nil-payload", fmt.Sprintf("command type %d, no payload, wrong credentials", t), 2, frame(&cproto.Command{Type: cproto.Command_Type(t), Credentials: &cproto.Credentials{Username: "admin", Password: "nope"}}), 150, 1)
	}
	// well-formed commands of every type with a real payload, presented without
	// credentials, with an empty Credentials message, with an unknown user and with
	// a wrong password: each must be refused and must neither crash the node nor
	// change its state
	stmt := func(sql string) *cmdproto.Request {
		return &cmdproto.Request{Statements: []*cmdproto.Statement{{Sql: sql}}}
	}
	payloads := []struct {
		name string
		cmd  *cproto.Command
	}{
		{"EXECUTE", &cproto.Command{Type: cproto.Command_COMMAND_TYPE_EXECUTE, Request: &cproto.Command_ExecuteRequest{ExecuteRequest: &cmdproto.ExecuteRequest{Request: stmt("INSERT INTO canary(v) VALUES('evil')")}}}},
		{"QUERY", &cproto.Command{Type: cproto.Command_COMMAND_TYPE_QUERY, Request: &cproto.Command_QueryRequest{QueryRequest: &cmdproto.QueryRequest{Request: stmt("SELECT * FROM canary")}}}},
		{"REQUEST", &cproto.Command{Type: cproto.Command_COMMAND_TYPE_REQUEST, Request: &cproto.Command_ExecuteQueryRequest{ExecuteQueryRequest: &cmdproto.ExecuteQueryRequest{Request: stmt("INSERT INTO canary(v) VALUES('evil2')")}}}},
		{"BACKUP", &cproto.Command{Type: cproto.Command_COMMAND_TYPE_BACKUP, Request: &cproto.Command_BackupRequest{BackupRequest: &cmdproto.BackupRequest{Format: cmdproto.BackupRequest_BACKUP_REQUEST_FORMAT_BINARY}}}},
		{"BACKUP_STREAM", &cproto.Command{Type: cproto.Command_COMMAND_TYPE_BACKUP_STREAM, Request: &cproto.Command_BackupRequest{BackupRequest: &cmdproto.BackupRequest{Format: cmdproto.BackupRequest_BACKUP_REQUEST_FORMAT_BINARY}}}},
		{"LOAD", &cproto.Command{Type: cproto.Command_COMMAND_TYPE_LOAD, Request: &cproto.Command_LoadRequest{LoadRequest: &cmdproto.LoadRequest{Data: []byte("SQLite format 3\x00 not really")}}}},
		{"LOAD_CHUNK", &cproto.Command{Type: cproto.Command_COMMAND_TYPE_LOAD_CHUNK, Request: &cproto.Command_LoadChunkRequest{LoadChunkRequest: &cmdproto.LoadChunkRequest{StreamId: "s", SequenceNum: 1, Data: []byte("x")}}}},
		{"REMOVE_NODE", &cproto.Command{Type: cproto.Command_COMMAND_TYPE_REMOVE_NODE, Request: &cproto.Command_RemoveNodeRequest{RemoveNodeRequest: &cmdproto.RemoveNodeRequest{Id: "n1"}}}},
		{"NOTIFY", &cproto.Command{Type: cproto.Command_COMMAND_TYPE_NOTIFY, Request: &cproto.Command_NotifyRequest{NotifyRequest: &cmdproto.NotifyRequest{Id: "ghost", Address: "127.0.0.1:1"}}}},
		{"JOIN", &cproto.Command{Type: cproto.Command_COMMAND_TYPE_JOIN, Request: &cproto.Command_JoinRequest{JoinRequest: &cmdproto.JoinRequest{Id: "ghost", Address: "127.0.0.1:1", Voter: false}}}},
		{"STEPDOWN", &cproto.Command{Type: cproto.Command_COMMAND_TYPE_STEPDOWN, Request: &cproto.Command_StepdownRequest{StepdownRequest: &cmdproto.StepdownRequest{}}}},
		{"HIGHWATER_MARK_UPDATE", &cproto.Command{Type: cproto.Command_COMMAND_TYPE_HIGHWATER_MARK_UPDATE, Request: &cproto.Command_HighwaterMarkUpdateRequest{HighwaterMarkUpdateRequest: &cproto.HighwaterMarkUpdateRequest{NodeId: "ghost", HighwaterMark: 1 << 60}}}},
	}
	for _, pl := range payloads {
		for _, cr := range []struct {
			name string
			c    *cproto.Credentials
		}{{"no credentials", nil}, {"empty credentials", &cproto.Credentials{}}, {"unknown user", &cproto.Credentials{Username: "mallory", Password: "x"}}, {"wrong password", &cproto.Credentials{Username: "admin", Password: "nope"}}} {
			cmd := proto.Clone(pl.cmd).(*cproto.Command)
			cmd.Credentials = cr.c
			add("wellformed-unauthorized", fmt.Sprintf("well-formed %s command, %s", pl.name, cr.name), 2, frame(cmd), 250, 1)
		}
	}
	// well-formed, state-changing commands presented by authenticated users whose
	// permissions do not cover them (read-only, backup, status users; the two
	// read-replica join permissions asking for a *voting* join): no effect allowed
	limited := []string{"st", "rd", "q", "bk", "jr", "jo"}
	for _, pl := range payloads {
		switch pl.name {
		case "EXECUTE", "REQUEST", "LOAD", "LOAD_CHUNK", "REMOVE_NODE":
		default:
			continue
		}
		for _, u := range limited {
			cmd := proto.Clone(pl.cmd).(*cproto.Command)
			cmd.Credentials = &cproto.Credentials{Username: u, Password: "pw-" + u}
			add("wellformed-underprivileged", fmt.Sprintf("well-formed %s command by user %s (correct password, lacks the permission)", pl.name, u), 2, frame(cmd), 250, 1)
		}
	}
	for _, u := range limited {
		cmd := &cproto.Command{Type: cproto.Command_COMMAND_TYPE_JOIN, Credentials: &cproto.Credentials{Username: u, Password: "pw-" + u},
			Request: &cproto.Command_JoinRequest{JoinRequest: &cmdproto.JoinRequest{Id: "ghost-" + u, Address: "127.0.0.1:1", Voter: true}}}
		add("wellformed-underprivileged", fmt.Sprintf("well-formed JOIN(voter) command by user %s (correct password, lacks the permission)", u), 2, frame(cmd), 250, 1)
	}
	// hollow payloads: the right payload message for the command type, but with
	// none of its fields set (nil inner Request, no data, empty ids), presented by
	// an authorized sender and by an anonymous one: the handlers must cope with
	// every field being absent
	admin := &cproto.Credentials{Username: "admin", Password: "secret"}
	hollow := []struct {
		name string
		cmd  *cproto.Command
	}{
		{"EXECUTE", &cproto.Command{Type: cproto.Command_COMMAND_TYPE_EXECUTE, Request: &cproto.Command_ExecuteRequest{ExecuteRequest: &cmdproto.ExecuteRequest{}}}},
		{"QUERY", &cproto.Command{Type: cproto.Command_COMMAND_TYPE_QUERY, Request: &cproto.Command_QueryRequest{QueryRequest: &cmdproto.QueryRequest{}}}},
		{"REQUEST", &cproto.Command{Type: cproto.Command_COMMAND_TYPE_REQUEST, Request: &cproto.Command_ExecuteQueryRequest{ExecuteQueryRequest: &cmdproto.ExecuteQueryRequest{}}}},
		{"BACKUP", &cproto.Command{Type: cproto.Command_COMMAND_TYPE_BACKUP, Request: &cproto.Command_BackupRequest{BackupRequest: &cmdproto.BackupRequest{}}}},
		{"BACKUP_STREAM", &cproto.Command{Type: cproto.Command_COMMAND_TYPE_BACKUP_STREAM, Request: &cproto.Command_BackupRequest{BackupRequest: &cmdproto.BackupRequest{}}}},
		{"LOAD_CHUNK", &cproto.Command{Type: cproto.Command_COMMAND_TYPE_LOAD_CHUNK, Request: &cproto.Command_LoadChunkRequest{LoadChunkRequest: &cmdproto.LoadChunkRequest{}}}},
		{"REMOVE_NODE", &cproto.Command{Type: cproto.Command_COMMAND_TYPE_REMOVE_NODE, Request: &cproto.Command_RemoveNodeRequest{RemoveNodeRequest: &cmdproto.RemoveNodeRequest{}}}},
		{"NOTIFY", &cproto.Command{Type: cproto.Command_COMMAND_TYPE_NOTIFY, Request: &cproto.Command_NotifyRequest{NotifyRequest: &cmdproto.NotifyRequest{}}}},
		{"JOIN", &cproto.Command{Type: cproto.Command_COMMAND_TYPE_JOIN, Request: &cproto.Command_JoinRequest{JoinRequest: &cmdproto.JoinRequest{}}}},
		{"HIGHWATER_MARK_UPDATE", &cproto.Command{Type: cproto.Command_COMMAND_TYPE_HIGHWATER_MARK_UPDATE, Request: &cproto.Command_HighwaterMarkUpdateRequest{HighwaterMarkUpdateRequest: &cproto.HighwaterMarkUpdateRequest{}}}},
		// payload of another command type than the one named
		{"EXECUTE-with-query-payload", &cproto.Command{Type: cproto.Command_COMMAND_TYPE_EXECUTE, Request: &cproto.Command_QueryRequest{QueryRequest: &cmdproto.QueryRequest{Request: stmt("SELECT 1")}}}},
		{"REQUEST-with-execute-payload", &cproto.Command{Type: cproto.Command_COMMAND_TYPE_REQUEST, Request: &cproto.Command_ExecuteRequest{ExecuteRequest: &cmdproto.ExecuteRequest{Request: stmt("SELECT 1")}}}},
		{"QUERY-with-statement-without-sql", &cproto.Command{Type: cproto.Command_COMMAND_TYPE_QUERY, Request: &cproto.Command_QueryRequest{QueryRequest: &cmdproto.QueryRequest{Request: &cmdproto.Request{Statements: []*cmdproto.Statement{{}, nil}}}}}},
		{"REQUEST-with-nil-statement", &cproto.Command{Type: cproto.Command_COMMAND_TYPE_REQUEST, Request: &cproto.Command_ExecuteQueryRequest{ExecuteQueryRequest: &cmdproto.ExecuteQueryRequest{Request: &cmdproto.Request{Statements: []*cmdproto.Statement{{Sql: "SELECT 1", Parameters: []*cmdproto.Parameter{{}, nil}}}}}}}},
	}
	for _, pl := range hollow {
		for _, cr := range []struct {
			name string
			c    *cproto.Credentials
		}{{"admin credentials", admin}, {"no credentials", nil}} {
			cmd := proto.Clone(pl.cmd).(*cproto.Command)
			cmd.Credentials = cr.c
			add("hollow-payload", fmt.Sprintf("hollow %s command, %s", pl.name, cr.name), 2, frame(cmd), 250, 1)
		}
	}
	// length prefixes followed by few bytes
	for _, sz := range []uint64{0, 1, 7, 1 << 20, 1 << 31, 1 << 33, 1 << 36, 1 << 40, 1 << 47, 1 << 63, ^uint64(0)} {
		for _, tail := range []int{0, 1, 64} {
			add("length-prefix", fmt.Sprintf("length prefix %d followed by %d bytes", sz, tail), 2, append(le64(sz), rnd(tail)...), 400, 1)
		}
	}
	// valid length + random protobuf
	nr := c.N(60, 1200)
	for i := 0; i < nr; i++ {
		n := r.IntN(200)
		add("random-protobuf", fmt.Sprintf("valid length %d + random bytes", n), 2, append(le64(uint64(n)), rnd(n)...), 50, 1)
	}
	// pure random on each header
	for i := 0; i < c.N(60, 1200); i++ {
		hdr := byte([]int{1, 2, 0, 3, 7, 255}[r.IntN(6)])
		add("random-bytes", fmt.Sprintf("random %d bytes on mux header %d", 0, hdr), hdr, rnd(r.IntN(300)), 50, 1)
	}
	// mutated well-formed commands
	base := [][]byte{
		frame(&cproto.Command{Type: cproto.Command_COMMAND_TYPE_GET_NODE_META}),
	}
	for i := 0; i < c.N(60, 1200); i++ {
		b := append([]byte(nil), base[r.IntN(len(base))]...)
		for k := 0; k < 1+r.IntN(3); k++ {
			b[r.IntN(len(b))] ^= byte(1 << r.IntN(8))
		}
		add("mutated-frame", "bit-flipped GET_NODE_META frame", 2, b, 50, 1)
	}
	// truncated frame, slow-loris, idle connections
	f := frame(&cproto.Command{Type: cproto.Command_COMMAND_TYPE_GET_NODE_META, Credentials: &cproto.Credentials{Username: "u", Password: "p"}})
	add("truncated", "frame cut in the middle, connection held", 2, f[:len(f)/2], 1500, 1)
	add("idle-conns", "600 idle connections (header byte only)", 2, nil, 2000, 600)
	add("idle-conns", "300 connections each with a 1 GiB length prefix", 2, le64(1<<30), 2000, 300)
	return out
}

type probe struct {
	Alive     bool   `json:"alive"`
	Exit      int    `json:"exit_code"`
	Ready     bool   `json:"ready"`
	WriteOK   bool   `json:"write_ok"`
	Rows      int64  `json:"rows"`
	RSSKB     int64  `json:"vm_rss_kb"`
	HeapSys   int64  `json:"heap_sys"`
	HeapInUse int64  `json:"heap_inuse"`
	Note      string `json:"note,omitempty"`
}

func procStatus(pid int, key string) int64 {
	b, err := os.ReadFile(fmt.Sprintf("/proc/%d/status", pid))
	if err != nil {
		return -1
	}
	for _, l := range strings.Split(string(b), "\n") {
		if strings.HasPrefix(l, key+":") {
			f := strings.Fields(l)
			if len(f) >= 2 {
				v, _ := strconv.ParseInt(f[1], 10, 64)
				return v
			}
		}
	}
	return -1
}

func memstats(n *procnode.Node) (sys, inuse int64) {
	r := n.Do("GET", "/debug/vars", nil, "")
	if r.Err != nil || r.Status != 200 {
		return -1, -1
	}
	var v struct {
		Memstats struct {
			HeapSys   int64
			HeapInuse int64
		} `json:"memstats"`
	}
	if json.Unmarshal(r.Body, &v) != nil {
		return -1, -1
	}
	return v.Memstats.HeapSys, v.Memstats.HeapInuse
}

func health(n *procnode.Node, wantRows int64, doWrite bool) probe {
	var p probe
	if code, exited := n.WaitExit(0); exited || !n.Running() {
		p.Exit = code
		return p
	}
	p.Alive = true
	p.RSSKB = procStatus(n.Pid(), "VmRSS")
	r := n.Do("GET", "/readyz", nil, "")
	p.Ready = r.Err == nil && r.Status == 200
	if doWrite {
		w := n.PostJSON("/db/execute", []any{"INSERT INTO canary(v) VALUES('x')"})
		p.WriteOK = w.OK()
	} else {
		p.WriteOK = true
	}
	q := n.Do("GET", "/db/query?level=weak&q="+url.QueryEscape("SELECT count(*) FROM canary"), nil, "")
	if a, err := q.Parse(); err == nil && len(a.Results) == 1 && len(a.Results[0].Values) == 1 {
		if num, ok := a.Results[0].Values[0][0].(json.Number); ok {
			p.Rows, _ = num.Int64()
		}
	} else {
		p.Rows = -1
	}
	p.HeapSys, p.HeapInUse = memstats(n)
	return p
}

func send(addr string, s stream) (sent int64, note string) {
	conns := s.Conns
	if conns < 1 {
		conns = 1
	}
	var open []net.Conn
	defer func() {
		for _, c := range open {
			c.Close()
		}
	}()
	for i := 0; i < conns; i++ {
		c, err := net.DialTimeout("tcp", addr, 3*time.Second)
		if err != nil {
			note = "dial: " + err.Error()
			break
		}
		open = append(open, c)
		c.SetWriteDeadline(time.Now().Add(3 * time.Second))
		n, _ := c.Write(append([]byte{s.Header}, s.Bytes...))
		sent += int64(n)
	}
	time.Sleep(time.Duration(s.HoldMs) * time.Millisecond)
	// read whatever came back (bounded) so that the server side can finish
	for _, c := range open {
		c.SetReadDeadline(time.Now().Add(20 * time.Millisecond))
		buf := make([]byte, 4096)
		c.Read(buf)
		if len(open) > 50 {
			break
		}
	}
	return sent, note
}

func run(c *vf.Ctx) {
	c.Rule("stream = bytes written to the node's inter-node (mux) port after a mux header byte: every cluster command type with a missing payload x {no, right, wrong} credentials; every payload-carrying command type with a hollow payload (the right message with no field set, a payload of another type, statements without SQL, nil parameters) x {authorized sender, anonymous}; every command type with a real, state-changing or data-reading payload x {no credentials, empty credentials, unknown user, wrong password} (must be refused without effect); state-changing commands and voting joins by authenticated users whose permissions (status, ready, query, backup, join-read-replica, join-read-only) do not cover them; 64-bit length prefixes 0..2^64-1 followed by 0/1/64 bytes; valid length + random protobuf bytes; random bytes on registered and unregistered mux headers; bit-flipped well-formed frames; truncated frame held open; 600 idle connections; 300 connections announcing 1 GiB each. One real rqlited process (credential store configured, ulimit -v 12 GiB) receives them one after the other; after each stream: process alive, /readyz, a write + read over HTTP, row count as expected, VmRSS and Go heap (HeapSys/HeapInuse from /debug/vars). non-trivial = stream of a class other than pure random bytes; distinct by stream bytes")
	c.Assume("memory oracle: growth of HeapInuse or VmRSS across one stream must stay below bytes sent + 256 MiB (measured while the connections are still open for length-prefix streams)")
	tmp := vf.TempDir("c35")
	defer os.RemoveAll(tmp)
	authFile := filepath.Join(tmp, "auth.json")
	os.WriteFile(authFile, []byte(`[{"username":"admin","password":"secret","perms":["all"]},{"username":"*","perms":["ready","status"]},
 {"username":"st","password":"pw-st","perms":["status"]},{"username":"rd","password":"pw-rd","perms":["ready"]},{"username":"q","password":"pw-q","perms":["query"]},
 {"username":"bk","password":"pw-bk","perms":["backup"]},{"username":"jr","password":"pw-jr","perms":["join-read-replica"]},{"username":"jo","password":"pw-jo","perms":["join-read-only"]}]`), 0644)
	streams := genStreams(c)
	var n *procnode.Node
	var rows int64
	start := func() error {
		if n != nil {
			n.Kill()
		}
		dir := filepath.Join(tmp, fmt.Sprintf("data-%d", time.Now().UnixNano()))
		n = procnode.New("n1", dir)
		n.Args = []string{"-auth", authFile, "-raft-snap", "100000", "-raft-snap-int", "1h"}
		n.VLimitKB = 12 << 20
		n.Auth = "admin:secret"
		if err := n.Start(); err != nil {
			return err
		}
		if err := n.WaitReady(60 * time.Second); err != nil {
			return err
		}
		if r := n.PostJSON("/db/execute", []any{"CREATE TABLE canary (id INTEGER PRIMARY KEY, v TEXT)", "INSERT INTO canary(v) VALUES('c0')"}); !r.OK() {
			return fmt.Errorf("seed: %v %d %s", r.Err, r.Status, r.Body)
		}
		rows = 1
		return nil
	}
	if err := start(); err != nil {
		c.Inconclusive("start: " + err.Error())
		return
	}
	defer func() { n.Kill() }()
	cmdLog, _ := os.Create(filepath.Join(tmp, "commands.log"))
	defer cmdLog.Close()
	restarts := 0
	for i, s := range streams {
		before := health(n, rows, false)
		if !before.Alive {
			if err := start(); err != nil {
				c.Inconclusive("restart: " + err.Error())
				return
			}
			restarts++
			before = health(n, rows, false)
		}
		fmt.Fprintf(cmdLog, "%d %s %s hdr=%d hex=%s\n", i, s.Class, s.Desc, s.Header, s.Hex)
		cmdLog.Sync()
		// measure while the connection is still open for allocation-style streams
		type res struct {
			sent int64
			note string
		}
		done := make(chan res, 1)
		go func() { a, b := send(n.RaftAddr, s); done <- res{a, b} }()
		time.Sleep(time.Duration(s.HoldMs/2+20) * time.Millisecond)
		during := health(n, rows, false)
		rs := <-done
		rows++
		after := health(n, rows, true)
		c.Eval(1)
		c.Count("streams:"+s.Class, 1)
		c.Count("bytes_sent", rs.sent)
		if s.Class != "random-bytes" {
			c.Nontrivial(s.Class + s.Hex + s.Desc)
		}
		rep := map[string]any{"stream": s, "before": before, "during": during, "after": after, "bytes_sent": rs.sent}
		keyBase := s.Class
		if s.Class == "nil-payload" {
			var t int
			fmt.Sscanf(s.Desc, "command type %d", &t)
			keyBase = fmt.Sprintf("nil-payload:%s", cproto.Command_Type(t))
		} else if s.Class == "length-prefix" {
			keyBase = "length-prefix:unbounded-make"
		} else if s.Class == "hollow-payload" {
			keyBase = "hollow-payload:" + strings.Fields(strings.TrimPrefix(s.Desc, "hollow "))[0]
		} else if s.Class == "wellformed-underprivileged" {
			keyBase = "wellformed-underprivileged:" + strings.Fields(strings.TrimPrefix(s.Desc, "well-formed "))[0]
		} else if s.Class == "wellformed-unauthorized" {
			keyBase = "wellformed-unauthorized:" + strings.Fields(strings.TrimPrefix(s.Desc, "well-formed "))[0]
		}
		switch {
		case !after.Alive || !during.Alive:
			ex := after.Exit
			c.Violation("crash:"+keyBase, fmt.Sprintf("node process died (exit %d) after stream %d: %s (mux header %d, bytes %s)", ex, i, s.Desc, s.Header, s.Hex), rep)
			rows = 0
			continue
		case !after.Ready || !after.WriteOK:
			c.Violation("unhealthy:"+keyBase, fmt.Sprintf("node stopped serving after stream %d: %s (ready=%v write=%v)", i, s.Desc, after.Ready, after.WriteOK), rep)
			continue
		case after.Rows != rows:
			c.Violation("state-changed:"+keyBase, fmt.Sprintf("row count %d, expected %d after stream %d: %s", after.Rows, rows, i, s.Desc), rep)
			rows = after.Rows
			continue
		}
		const slack = 256 << 20
		grow := func(a, b int64) int64 {
			if a < 0 || b < 0 {
				return 0
			}
			return b - a
		}
		g := grow(before.HeapInUse, during.HeapInUse)
		if g2 := grow(before.HeapInUse, after.HeapInUse); g2 > g {
			g = g2
		}
		if g3 := grow(before.RSSKB, during.RSSKB) * 1024; g3 > g {
			g = g3
		}
		if g > rs.sent+slack {
			c.Violation("memory:"+keyBase, fmt.Sprintf("memory grew by %d MiB for %d bytes sent (stream %d: %s)", g>>20, rs.sent, i, s.Desc), rep)
			continue
		}
		c.Held(1)
		if i%97 == 0 {
			c.Sample(rep)
		}
	}
	c.Count("node_restarts_after_crash", int64(restarts))
	c.Require(int64(len(streams)*3/4), 50)
	_ = rand.Int
}
