package c23

// Consumer-stall rounds (light traffic): the queue consumer of one node is held
// up in the middle of a batch (a slow statement, or the node is cut off from
// the others so that the apply fails and is retried) while two more queued
// requests arrive one after the other, each alone in its own timer window, and
// then the traffic stops. Every step is sequenced on the process's own queue /
// consumer counters, not on sleeps:
//
//	A accepted -> consumer took A (stmts_rx) -> B accepted -> B handed over by
//	the timer flush (objects_tx; it sits in the hand-over channel because the
//	consumer is busy) -> C accepted -> C's timer fired (num_timeout) while A
//	was still not finished (stmts_tx) => "staged".
//
// Afterwards (fault healed, leader present) the queue has to become quiescent:
// objects_rx == objects_tx == stmts_tx. The state "accepted objects are held
// back although the consumer has finished everything that was handed to it"
// (rx > tx == stmts_tx) can legitimately last one queue timeout (2-20 ms); the
// bounded-progress oracle calls it stuck when it holds, with unchanged
// counters, for 12 s while strong reads through the same node keep succeeding,
// and the final strong read then shows which accepted requests are absent.

import (
	"expvar"
	"fmt"
	"net/url"
	"time"

	"verif/internal/hcluster"
)

type stallRound struct {
	Node     string `json:"node"`
	Role     string `json:"role"`
	Mode     string `json:"mode"` // slow | isolate | pre (quiescence check only)
	Staged   bool   `json:"staged"`
	Note     string `json:"note,omitempty"`
	Settle   string `json:"settle"` // applied | stuck | unsettled
	HeldMs   int64  `json:"held_ms"`
	HeldMax  int64  `json:"held_max_ms"`
	Polls    int    `json:"held_polls"`
	Controls int    `json:"controls_ok"`
	RX       int64  `json:"objects_rx"`
	TX       int64  `json:"objects_tx"`
	STX      int64  `json:"stmts_tx"`
	Client   int    `json:"client"`
}

type qctr struct{ rx, tx, srx, stx, nto, failed int64 }

func expInt(m, k string) int64 {
	if em, ok := expvar.Get(m).(*expvar.Map); ok {
		if iv, ok := em.Get(k).(*expvar.Int); ok {
			return iv.Value()
		}
	}
	return 0
}

func readCtr() qctr {
	// consumer side first: the counters only grow, so reading the producer side
	// later can only make rx/tx look larger, never hide pending objects that a
	// finished consumer has already accounted for.
	var c qctr
	c.stx = expInt("http", "queued_executions_num_stmts_tx")
	c.srx = expInt("http", "queued_executions_num_stmts_rx")
	c.tx = expInt("queue", "objects_tx")
	c.rx = expInt("queue", "objects_rx")
	c.nto = expInt("queue", "num_timeout")
	c.failed = expInt("http", "queued_executions_failed")
	return c
}

const (
	stuckWindow   = 12 * time.Second
	stuckPollsMin = 40
	stuckCtlMin   = 3
	settleMax     = 90 * time.Second
	slowBandMs    = 3000
	slowStmtRows  = 20000000 // about 2 s of SQLite work
)

// settle waits for the queues of the process to become quiescent.
func settle(cl *hcluster.Cluster, node *hcluster.Node, sr *stallRound) {
	deadline := time.Now().Add(settleMax)
	var held qctr
	var heldSince, lastCtl time.Time
	inHeld := false
	reset := func() { inHeld = false; sr.Polls = 0; sr.Controls = 0; sr.HeldMs = 0 }
	for {
		c := readCtr()
		sr.RX, sr.TX, sr.STX = c.rx, c.tx, c.stx
		switch {
		case c.rx == c.tx && c.tx == c.stx:
			sr.Settle = "applied"
			return
		case c.rx > c.tx && c.tx == c.stx:
			if !inHeld || held.rx != c.rx || held.tx != c.tx || held.stx != c.stx {
				reset()
				inHeld, held, heldSince, lastCtl = true, c, time.Now(), time.Time{}
			}
			sr.Polls++
			sr.HeldMs = time.Since(heldSince).Milliseconds()
			if sr.HeldMs > sr.HeldMax {
				sr.HeldMax = sr.HeldMs
			}
			if time.Since(lastCtl) > time.Second {
				// control: the leader is reachable from this node and commits
				lastCtl = time.Now()
				qr := cl.Do(node, "GET", "/db/query?level=strong&timeout=5s&q="+url.QueryEscape("SELECT count(*) FROM q"), nil, nil)
				qa, err := qr.Parse()
				if err == nil && qr.Status == 200 && qa.Error == "" && len(qa.Results) == 1 && qa.Results[0].Error == "" {
					sr.Controls++
				} else {
					logf("stall: control read on %s failed (%v %d); hold window restarted", node.Name, qr.Err, qr.Status)
					reset()
				}
			}
			if inHeld && time.Since(heldSince) >= stuckWindow && sr.Polls >= stuckPollsMin && sr.Controls >= stuckCtlMin {
				sr.Settle = "stuck"
				return
			}
		default:
			reset()
		}
		if time.Now().After(deadline) {
			sr.Settle = "unsettled"
			return
		}
		time.Sleep(100 * time.Millisecond)
	}
}

func waitCtr(d time.Duration, cond func(qctr) bool) bool {
	end := time.Now().Add(d)
	for {
		if cond(readCtr()) {
			return true
		}
		if time.Now().After(end) {
			return false
		}
		time.Sleep(2 * time.Millisecond)
	}
}

// stallPhase runs one round per node. It returns false when a queue was found
// stuck (the rest of the load phases is then skipped: they would only wait
// behind the stuck requests).
func stallPhase(cl *hcluster.Cluster, cs caseSpec, nodes []*hcluster.Node, h *histOut, add func(reqRec)) bool {
	names := cl.Names()
	for ni, node := range nodes {
		mode := "slow"
		if cs.Nodes == 3 && cs.StallModes[ni%len(cs.StallModes)] == 1 {
			mode = "isolate"
		}
		// quiescence first (this is also the bounded-progress oracle for
		// whatever the phases before left in the queues)
		pre := stallRound{Node: node.Name, Mode: "pre"}
		cl.Net.HealAll()
		cl.WaitLeader(60 * time.Second)
		settle(cl, node, &pre)
		if pre.Settle != "applied" || pre.HeldMax >= slowBandMs {
			h.Stall = append(h.Stall, pre)
		}
		if pre.Settle == "stuck" {
			return false
		}
		if pre.Settle != "applied" {
			return true // inconclusive; reported by judge
		}
		sr := stallRound{Node: node.Name, Mode: mode, Role: "follower", Client: 300 + ni}
		if node.Store.IsLeader() {
			sr.Role = "leader"
		}
		c0 := readCtr()
		if mode == "isolate" {
			cl.Net.Isolate(node.Name, names)
		}
		kb, kc := 1+(cs.Case+ni)%3, 1+(cs.Case+2*ni+1)%3
		func() {
			a := doReq(cl, node, sr.Client, 0, step{K: 1, Mode: "stall", Slow: mode == "slow"})
			add(a)
			if a.Status != 200 {
				sr.Note = fmt.Sprintf("A not accepted (%d %s)", a.Status, a.Err)
				return
			}
			if !waitCtr(10*time.Second, func(c qctr) bool { return c.srx >= c0.srx+1 }) {
				sr.Note = "consumer never took A"
				return
			}
			b := doReq(cl, node, sr.Client, 1, step{K: kb, Mode: "stall"})
			add(b)
			if b.Status != 200 {
				sr.Note = fmt.Sprintf("B not accepted (%d %s)", b.Status, b.Err)
				return
			}
			if !waitCtr(10*time.Second, func(c qctr) bool { return c.tx >= c0.tx+1+int64(kb) || c.stx > c0.stx }) {
				sr.Note = "B never handed over"
				return
			}
			c1 := readCtr()
			if c1.stx > c0.stx {
				sr.Note = "stall ended before B was handed over"
				return
			}
			cc := doReq(cl, node, sr.Client, 2, step{K: kc, Mode: "stall"})
			add(cc)
			if cc.Status != 200 {
				sr.Note = fmt.Sprintf("C not accepted (%d %s)", cc.Status, cc.Err)
				return
			}
			if !waitCtr(10*time.Second, func(c qctr) bool { return c.nto > c1.nto || c.stx > c0.stx }) {
				sr.Note = "C's timer never fired"
				return
			}
			c2 := readCtr()
			if c2.stx > c0.stx {
				sr.Note = "stall ended before C's timer fired"
				return
			}
			sr.Staged = true
		}()
		logf("stall round on %s (%s, %s): staged=%v %s", node.Name, sr.Role, mode, sr.Staged, sr.Note)
		cl.Net.HealAll()
		cl.WaitLeader(60 * time.Second)
		settle(cl, node, &sr)
		logf("stall round on %s: settle=%s held_max=%dms rx=%d tx=%d stx=%d", node.Name, sr.Settle, sr.HeldMax, sr.RX, sr.TX, sr.STX)
		h.Stall = append(h.Stall, sr)
		if sr.Settle == "stuck" {
			return false
		}
		if sr.Settle != "applied" {
			return true
		}
	}
	return true
}
