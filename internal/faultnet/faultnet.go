// Package faultnet is a harness-owned network fault layer. rqlite's Store takes
// a Layer (listener + Dial) and the cluster client takes a Dialer, so every
// inter-node connection is created by a Dial we wrap: per ordered node pair we
// can block (existing connections are failed too), delay, or cut a connection
// after N bytes. Nothing in rqlite is modified.
package faultnet

import (
	"errors"
	"fmt"
	"net"
	"sync"
	"sync/atomic"
	"time"
)

// ErrBlocked is returned by I/O on a blocked link.
var ErrBlocked = errors.New("faultnet: link blocked")

// Dialer is the dial interface of tcp.Dialer / cluster.Dialer / store.Layer.
type Dialer interface {
	Dial(address string, timeout time.Duration) (net.Conn, error)
}

// Event is one entry of the fault/connection log.
type Event struct {
	Seq  int64
	Kind string // block, unblock, heal, dial, dial-refused, cut, close
	Src  string
	Dst  string
	Chan string
	N    int64
}

type pair struct{ src, dst string }

// Net is the fault matrix shared by all nodes of one in-process cluster.
type Net struct {
	mu        sync.Mutex
	addr2node map[string]string
	blocked   map[pair]bool          // data flowing src -> dst is dropped
	delay     map[pair]time.Duration // added before each write src -> dst
	// replyDelay: data sent by src back to dst on a connection that dst dialed
	// is handed to dst that much later (acknowledgements travel slowly while
	// requests arrive at once)
	replyDelay map[pair]time.Duration
	cutAfter   map[string]*int64 // key src|dst|chan: bytes readable by src from dst on the NEXT connection
	conns      map[*conn]struct{}
	seq        atomic.Int64
	log        []Event
}

// New returns an empty network (everything connected).
func New() *Net {
	return &Net{
		addr2node:  map[string]string{},
		blocked:    map[pair]bool{},
		delay:      map[pair]time.Duration{},
		replyDelay: map[pair]time.Duration{},
		cutAfter:   map[string]*int64{},
		conns:      map[*conn]struct{}{},
	}
}

// Seq returns the next logical sequence number (shared with monitors).
func (n *Net) Seq() int64 { return n.seq.Add(1) }

func (n *Net) logf(kind, src, dst, ch string, v int64) {
	n.log = append(n.log, Event{Seq: n.seq.Add(1), Kind: kind, Src: src, Dst: dst, Chan: ch, N: v})
}

// Events returns a copy of the event log.
func (n *Net) Events() []Event {
	n.mu.Lock()
	defer n.mu.Unlock()
	return append([]Event(nil), n.log...)
}

// Register maps a listen address to a node name.
func (n *Net) Register(node, addr string) {
	n.mu.Lock()
	n.addr2node[addr] = node
	n.mu.Unlock()
}

// Unregister removes an address mapping.
func (n *Net) Unregister(addr string) {
	n.mu.Lock()
	delete(n.addr2node, addr)
	n.mu.Unlock()
}

// BlockOneWay drops data flowing src -> dst and fails existing connections
// between the two.
func (n *Net) BlockOneWay(src, dst string) {
	n.mu.Lock()
	n.blocked[pair{src, dst}] = true
	n.logf("block", src, dst, "", 0)
	victims := n.victims(func(c *conn) bool {
		return (c.src == src && c.dst == dst) || (c.src == dst && c.dst == src)
	})
	n.mu.Unlock()
	for _, c := range victims {
		c.fail()
	}
}

// Block cuts both directions between a and b.
func (n *Net) Block(a, b string) {
	n.BlockOneWay(a, b)
	n.BlockOneWay(b, a)
}

// Unblock restores both directions between a and b.
func (n *Net) Unblock(a, b string) {
	n.mu.Lock()
	delete(n.blocked, pair{a, b})
	delete(n.blocked, pair{b, a})
	n.logf("unblock", a, b, "", 0)
	n.mu.Unlock()
}

// Isolate blocks node from all the others.
func (n *Net) Isolate(node string, others []string) {
	for _, o := range others {
		if o != node {
			n.Block(node, o)
		}
	}
}

// Partition blocks every link between the two groups.
func (n *Net) Partition(a, b []string) {
	for _, x := range a {
		for _, y := range b {
			n.Block(x, y)
		}
	}
}

// HealAll removes all blocks and delays.
func (n *Net) HealAll() {
	n.mu.Lock()
	n.blocked = map[pair]bool{}
	n.delay = map[pair]time.Duration{}
	n.replyDelay = map[pair]time.Duration{}
	n.logf("heal", "", "", "", 0)
	n.mu.Unlock()
}

// SetDelay adds d before every write from src to dst (0 removes it).
func (n *Net) SetDelay(src, dst string, d time.Duration) {
	n.mu.Lock()
	if d == 0 {
		delete(n.delay, pair{src, dst})
	} else {
		n.delay[pair{src, dst}] = d
	}
	n.mu.Unlock()
}

// SetReplyDelay delays by d everything src sends back to dst on connections
// that dst dialed (responses, acknowledgements); requests from dst to src are
// not affected. A response that is still being held back when the link gets
// blocked is lost. 0 removes the delay.
func (n *Net) SetReplyDelay(src, dst string, d time.Duration) {
	n.mu.Lock()
	if d == 0 {
		delete(n.replyDelay, pair{src, dst})
	} else {
		n.replyDelay[pair{src, dst}] = d
	}
	n.mu.Unlock()
}

func (n *Net) replyDelayOf(src, dst string) time.Duration {
	n.mu.Lock()
	defer n.mu.Unlock()
	return n.replyDelay[pair{src, dst}]
}

// CutNextAfter arranges that the next connection dialed by src to dst on the
// given channel delivers only nbytes to src (reads), then fails.
func (n *Net) CutNextAfter(src, dst, ch string, nbytes int64) {
	n.mu.Lock()
	v := nbytes
	n.cutAfter[src+"|"+dst+"|"+ch] = &v
	n.mu.Unlock()
}

// KillConns fails every open connection that involves node.
func (n *Net) KillConns(node string) {
	n.mu.Lock()
	victims := n.victims(func(c *conn) bool { return c.src == node || c.dst == node })
	n.mu.Unlock()
	for _, c := range victims {
		c.fail()
	}
}

func (n *Net) victims(match func(*conn) bool) []*conn {
	var out []*conn
	for c := range n.conns {
		if match(c) {
			out = append(out, c)
		}
	}
	return out
}

func (n *Net) isBlocked(src, dst string) bool {
	n.mu.Lock()
	defer n.mu.Unlock()
	return n.blocked[pair{src, dst}]
}

func (n *Net) delayOf(src, dst string) time.Duration {
	n.mu.Lock()
	defer n.mu.Unlock()
	return n.delay[pair{src, dst}]
}

// WrapDialer returns a Dialer for node src on the named channel.
func (n *Net) WrapDialer(src, ch string, inner Dialer) Dialer {
	return &fdialer{n: n, src: src, ch: ch, inner: inner}
}

type fdialer struct {
	n     *Net
	src   string
	ch    string
	inner Dialer
}

func (d *fdialer) Dial(address string, timeout time.Duration) (net.Conn, error) {
	d.n.mu.Lock()
	dst := d.n.addr2node[address]
	if dst == "" {
		dst = "addr:" + address
	}
	blk := d.n.blocked[pair{d.src, dst}] || d.n.blocked[pair{dst, d.src}]
	var cut *int64
	key := d.src + "|" + dst + "|" + d.ch
	if !blk {
		if p := d.n.cutAfter[key]; p != nil {
			cut = p
			delete(d.n.cutAfter, key)
		}
	}
	if blk {
		d.n.logf("dial-refused", d.src, dst, d.ch, 0)
	}
	d.n.mu.Unlock()
	if blk {
		return nil, fmt.Errorf("dial %s: %w", address, ErrBlocked)
	}
	c, err := d.inner.Dial(address, timeout)
	if err != nil {
		return nil, err
	}
	fc := &conn{Conn: c, n: d.n, src: d.src, dst: dst, ch: d.ch, cut: cut}
	d.n.mu.Lock()
	d.n.conns[fc] = struct{}{}
	d.n.logf("dial", d.src, dst, d.ch, 0)
	d.n.mu.Unlock()
	return fc, nil
}

type conn struct {
	net.Conn
	n        *Net
	src, dst string
	ch       string
	cut      *int64 // remaining readable bytes, nil = unlimited
	failed   atomic.Bool
	once     sync.Once
}

func (c *conn) fail() {
	c.failed.Store(true)
	c.Conn.Close()
}

func (c *conn) Read(p []byte) (int, error) {
	if c.failed.Load() {
		return 0, ErrBlocked
	}
	if c.cut != nil {
		rem := atomic.LoadInt64(c.cut)
		if rem <= 0 {
			c.n.mu.Lock()
			c.n.logf("cut", c.src, c.dst, c.ch, 0)
			c.n.mu.Unlock()
			c.fail()
			return 0, fmt.Errorf("faultnet: connection cut")
		}
		if int64(len(p)) > rem {
			p = p[:rem]
		}
	}
	nr, err := c.Conn.Read(p)
	if c.cut != nil && nr > 0 {
		atomic.AddInt64(c.cut, -int64(nr))
	}
	if nr > 0 {
		if d := c.n.replyDelayOf(c.dst, c.src); d > 0 {
			time.Sleep(d)
		}
	}
	if c.n.isBlocked(c.dst, c.src) {
		return 0, ErrBlocked
	}
	return nr, err
}

func (c *conn) Write(p []byte) (int, error) {
	if c.failed.Load() || c.n.isBlocked(c.src, c.dst) {
		return 0, ErrBlocked
	}
	if d := c.n.delayOf(c.src, c.dst); d > 0 {
		time.Sleep(d)
	}
	return c.Conn.Write(p)
}

func (c *conn) Close() error {
	c.once.Do(func() {
		c.n.mu.Lock()
		delete(c.n.conns, c)
		c.n.mu.Unlock()
	})
	return c.Conn.Close()
}

// Layer combines a listener with a fault-aware dialer: it satisfies
// store.Layer.
type Layer struct {
	net.Listener
	D Dialer
}

// Dial dials through the fault layer.
func (l *Layer) Dial(address string, timeout time.Duration) (net.Conn, error) {
	return l.D.Dial(address, timeout)
}
