// Package c38: linearizable reads complete on a healthy leader without further
// writes (DESIGN §6 C38).
package c38

import (
	"context"
	"encoding/json"
	"fmt"
	"net/url"
	"os"
	"path/filepath"
	"strings"
	"time"

	"github.com/rqlite/rqlite/v10/command/proto"
	"github.com/rqlite/rqlite/v10/vexport"
	"verif/internal/hcluster"
	"verif/internal/vf"
)

func init() {
	vf.Register("C38", "exploration", run)
	vf.RegisterWorker("c38", worker)
}

// One worker process runs a batch of histories (fresh cluster per history) and
// prints one JSON result per history.
type histResult struct {
	Case     int      `json:"case"`
	Ops      []string `json:"ops"`
	Nodes    int      `json:"nodes"`
	LastKind string   `json:"last_kind"` // kind of the last committed log entry before the reads
	Reads    []readR  `json:"reads"`
	SetupErr string   `json:"setup_err,omitempty"`
}

type readR struct {
	Status int     `json:"status"`
	Err    string  `json:"err,omitempty"`
	Rows   int64   `json:"rows"`
	Want   int64   `json:"want"`
	Ms     float64 `json:"ms"`
}

var opKinds = []string{"write", "strong", "lin", "join-voter", "join-nonvoter", "remove", "stepdown", "barrier", "snapshot", "snapshot-trunc1", "snapshot-trunc2", "noop", "install-lead"}

func genOps(c *vf.Ctx, caseNo int) []string {
	r := c.Rand(uint64(caseNo))
	n := 1 + r.IntN(6)
	ops := []string{"write"}
	if r.IntN(3) > 0 {
		// a read at linearizable/strong level early in the term, so that later
		// linearizable reads are not upgraded to strong reads (which write)
		ops = append(ops, []string{"lin", "strong"}[r.IntN(2)])
	}
	for i := 0; i < n; i++ {
		// bias towards the entry kinds that do not change the database
		k := opKinds[r.IntN(len(opKinds))]
		ops = append(ops, k)
	}
	// every third history ends with a directed motif: a read that pins the term,
	// entries that never reach the FSM, then a log-truncating snapshot
	motifs := [][]string{
		{"lin", "barrier", "snapshot-trunc1"},
		{"lin", "join-voter", "barrier", "snapshot-trunc2"},
		{"strong", "barrier", "barrier", "snapshot-trunc2"},
		{"lin", "join-nonvoter", "barrier", "barrier", "snapshot-trunc3"},
		{"lin", "join-voter", "remove", "barrier", "snapshot-trunc3"},
		{"write", "lin", "barrier", "snapshot-trunc1", "barrier"},
		// long runs of entries that never reach the FSM, with no write, strong read
		// or leader change in between
		{"lin", "barrier", "barrier", "barrier", "barrier", "barrier", "barrier", "barrier"},
		// the read has to wait for an entry that is committed, not yet applied and
		// does not change the database
		{"write", "lin", "inflight-strong"},
		{"strong", "join-nonvoter", "barrier", "remove", "barrier", "barrier", "join-nonvoter", "barrier", "remove"},
		{"lin", "join-voter", "join-nonvoter", "barrier", "remove", "barrier", "remove", "barrier", "barrier"},
	}
	if caseNo%3 == 1 {
		ops = append(ops, motifs[(caseNo/3)%len(motifs)]...)
	}
	return ops
}

func run(c *vf.Ctx) {
	c.Rule("history = seeded sequence of 2-7 ops (every third history followed by one of 10 directed motifs: a read that pins the term, then 1-8 consecutive entries that never reach the FSM - barriers, joins, removals - some followed by a log-truncating snapshot) from {write, strong read, linearizable read, join voter/non-voter, remove, stepdown, barrier, user snapshot, user snapshot truncating the log to 1-2 trailing entries, noop, log truncation + snapshot install on a new voter + leadership transfer to it} on a fresh healthy in-process cluster (1 node, growing to at most 3), followed by 3 linearizable reads 50 ms apart over HTTP on the current leader with the default timeout and no write in between; thorough also probes after every prefix. non-trivial = history whose last committed entry before the reads is not a plain write; distinct by op sequence")
	c.Assume("healthy network (faultnet with no faults); reads go to the node that reports itself leader")
	c.Assume("a read failing with 'not leader' right after a stepdown is retried on the new leader (leadership moved, not a C38 failure)")
	if c.ReplayFile != "" {
		replay(c)
		return
	}
	nHist := c.N(30, 400)
	workers := 8
	per := (nHist + workers - 1) / workers
	type job struct{ lo, hi int }
	var jobs []job
	for lo := 0; lo < nHist; lo += per {
		hi := lo + per
		if hi > nHist {
			hi = nHist
		}
		jobs = append(jobs, job{lo, hi})
	}
	tmp := vf.TempDir("c38")
	defer os.RemoveAll(tmp)
	results := make(chan []histResult, len(jobs))
	for _, j := range jobs {
		go func(j job) {
			args := []string{fmt.Sprint(j.lo), fmt.Sprint(j.hi), fmt.Sprint(c.Seed), c.Tier, filepath.Join(tmp, fmt.Sprintf("w%d", j.lo))}
			out, code, ok := vf.RunWorkerOnce(false, "c38", args, nil, filepath.Join(tmp, fmt.Sprintf("w%d.log", j.lo)), 40*time.Minute)
			var rs []histResult
			for _, line := range strings.Split(string(out), "\n") {
				if strings.TrimSpace(line) == "" {
					continue
				}
				var r histResult
				if json.Unmarshal([]byte(line), &r) == nil {
					rs = append(rs, r)
				}
			}
			if !ok || code != 0 {
				c.Logf("worker %d-%d: exit=%d finished=%v", j.lo, j.hi, code, ok)
				c.Inconclusive("worker did not finish cleanly")
			}
			results <- rs
		}(j)
	}
	for range jobs {
		for _, r := range <-results {
			c.Eval(1)
			judge(c, r)
		}
	}
	c.Require(int64(nHist*3/4), 4)
}

// replay re-runs the op sequence stored in a replay file (or given inline as
// "ops:write,join-voter,...") three times.
func replay(c *vf.Ctx) {
	var ops []string
	if strings.HasPrefix(c.ReplayFile, "ops:") {
		ops = strings.Split(strings.TrimPrefix(c.ReplayFile, "ops:"), ",")
	} else {
		b, err := os.ReadFile(c.ReplayFile)
		if err != nil {
			panic(err)
		}
		var f struct {
			Case histResult `json:"case"`
		}
		if err := json.Unmarshal(b, &f); err != nil {
			panic(err)
		}
		ops = f.Case.Ops
	}
	tmp := vf.TempDir("c38r")
	defer os.RemoveAll(tmp)
	for i := 0; i < 3; i++ {
		out, _, _ := vf.RunWorkerOnce(false, "c38", []string{"replay", strings.Join(ops, ","), filepath.Join(tmp, fmt.Sprint(i))}, nil, filepath.Join(tmp, "log"), 5*time.Minute)
		var r histResult
		json.Unmarshal(out, &r)
		c.Eval(1)
		c.Nontrivial(fmt.Sprint(i))
		fmt.Printf("replay %d: %s", i, out)
		judge(c, r)
	}
}

func judge(c *vf.Ctx, r histResult) {
	if r.SetupErr != "" {
		c.Inconclusive("setup: " + r.SetupErr)
		return
	}
	c.Count("reads", int64(len(r.Reads)))
	c.Count("lastkind:"+r.LastKind, 1)
	if r.LastKind != "command" {
		c.Nontrivial(strings.Join(r.Ops, ","))
	}
	c.Sample(r)
	for _, rd := range r.Reads {
		if rd.Status != 200 || rd.Err != "" || rd.Rows != rd.Want {
			errk := "error"
			if strings.Contains(rd.Err, "timeout waiting for fsm") {
				errk = "fsm-wait-timeout"
			} else if rd.Err == "" && rd.Rows != rd.Want {
				errk = "wrong-rows"
			}
			c.Violation("lin-read-after:"+r.LastKind+":"+errk,
				fmt.Sprintf("linearizable read after ops %v (last committed entry kind %s, %d nodes) failed: status=%d err=%q rows=%d want=%d after %.0f ms",
					r.Ops, r.LastKind, r.Nodes, rd.Status, rd.Err, rd.Rows, rd.Want, rd.Ms), r)
			return
		}
	}
	c.Held(1)
}

func worker(args []string) {
	if args[0] == "replay" {
		json.NewEncoder(os.Stdout).Encode(runHistory(0, strings.Split(args[1], ","), args[2]))
		return
	}
	var lo, hi int
	var seed int64
	fmt.Sscan(args[0], &lo)
	fmt.Sscan(args[1], &hi)
	fmt.Sscan(args[2], &seed)
	tier := args[3]
	base := args[4]
	c := &vf.Ctx{ID: "C38", Seed: seed, Tier: tier}
	enc := json.NewEncoder(os.Stdout)
	for i := lo; i < hi; i++ {
		ops := genOps(c, i)
		if tier == "thorough" {
			// every prefix of length >= 2 for a third of the histories
			if i%3 == 0 {
				for p := 2; p < len(ops); p++ {
					enc.Encode(runHistory(i, ops[:p], filepath.Join(base, fmt.Sprintf("h%d-%d", i, p))))
				}
			}
		}
		enc.Encode(runHistory(i, ops, filepath.Join(base, fmt.Sprintf("h%d", i))))
	}
}

func runHistory(caseNo int, ops []string, dir string) (res histResult) {
	res = histResult{Case: caseNo, Ops: ops}
	defer os.RemoveAll(dir)
	cl := hcluster.New(dir)
	defer cl.Close()
	fail := func(format string, a ...any) histResult {
		res.SetupErr = fmt.Sprintf(format, a...)
		return res
	}
	opt := func(id string) hcluster.Options {
		return hcluster.Options{ID: id, HeartbeatTimeout: 300 * time.Millisecond, ElectionTimeout: 300 * time.Millisecond, LeaderLease: 250 * time.Millisecond}
	}
	if _, err := cl.Add(opt("n1"), true); err != nil {
		return fail("first node: %v", err)
	}
	l := cl.WaitLeader(10 * time.Second)
	if l == nil {
		return fail("no leader")
	}
	if r := cl.PostJSON(l, "/db/execute", []any{"CREATE TABLE t (id INTEGER PRIMARY KEY, v TEXT)"}); r.Err != nil || r.Status != 200 {
		return fail("create: %v %d", r.Err, r.Status)
	}
	var want int64
	nextID := 2
	lastKind := "command"
	for _, op := range ops {
		l = cl.WaitLeader(10 * time.Second)
		if l == nil {
			return fail("no leader before %s", op)
		}
		switch op {
		case "write":
			r := cl.PostJSON(l, "/db/execute", []any{fmt.Sprintf("INSERT INTO t(v) VALUES('x%d')", want)})
			a, err := r.Parse()
			if err != nil || r.Status != 200 || len(a.Results) != 1 || a.Results[0].Error != "" {
				return fail("write: %v %d %s", err, r.Status, r.Body)
			}
			want++
			lastKind = "command"
		case "strong":
			r := cl.Do(l, "GET", "/db/query?level=strong&q="+url.QueryEscape("SELECT COUNT(*) FROM t"), nil, nil)
			if r.Err != nil || r.Status != 200 {
				return fail("strong read: %v %d %s", r.Err, r.Status, r.Body)
			}
			lastKind = "command"
		case "lin":
			// outcome not judged here; only the final reads are the probe
			cl.Do(l, "GET", "/db/query?level=linearizable&q="+url.QueryEscape("SELECT COUNT(*) FROM t"), nil, nil)
		case "join-voter", "join-nonvoter":
			if len(cl.Live()) >= 3 {
				continue
			}
			id := fmt.Sprintf("n%d", nextID)
			nextID++
			if _, err := cl.Add(opt(id), op == "join-voter"); err != nil {
				return fail("join: %v", err)
			}
			lastKind = "config-change"
		case "install-lead":
			// truncate the log, let a brand-new voter come up through a snapshot
			// install, then hand leadership to it
			if len(cl.Live()) >= 3 {
				continue
			}
			if err := l.Store.Snapshot(1); err != nil && !strings.Contains(err.Error(), "nothing new to snapshot") &&
				!strings.Contains(err.Error(), "wait until the configuration entry") && !strings.Contains(err.Error(), "no WAL data available") {
				return fail("install-lead snapshot: %v", err)
			}
			id := fmt.Sprintf("n%d", nextID)
			nextID++
			nn, err := cl.Add(opt(id), true)
			if err != nil {
				return fail("install-lead join: %v", err)
			}
			lastKind = "config-change"
			if !cl.WaitConverged(15 * time.Second) {
				return fail("install-lead: new node did not catch up")
			}
			if err := l.Store.Stepdown(true, nn.ID); err == nil {
				lastKind = "leader-change-after-install"
			}
		case "remove":
			var victim *hcluster.Node
			for _, n := range cl.Live() {
				if n != l {
					victim = n
				}
			}
			if victim == nil {
				continue
			}
			if err := l.Store.Remove(context.Background(), &proto.RemoveNodeRequest{Id: victim.ID}); err != nil {
				return fail("remove: %v", err)
			}
			victim.Close()
			lastKind = "config-change"
		case "stepdown":
			voters := 0
			for _, n := range cl.Live() {
				if v, _ := n.Store.IsVoter(); v {
					voters++
				}
			}
			if voters < 2 {
				continue
			}
			cl.WaitConverged(5 * time.Second)
			if err := l.Store.Stepdown(true, ""); err != nil {
				continue // no suitable target: not part of the property
			}
			lastKind = "leader-change"
		case "inflight-strong":
			// A command that does not change the database (a strong read) is committed
			// but still waiting to be applied - applies are slowed through the
			// fsm.apply.entry hook - when the linearizable reads that follow arrive:
			// they have to wait for exactly that entry and be woken by it.
			vexport.HookSetDelay("fsm.apply.entry", 700*time.Millisecond)
			defer vexport.HookSetDelay("fsm.apply.entry", 0)
			bg := make(chan struct{})
			go func(n *hcluster.Node) {
				defer close(bg)
				cl.Do(n, "GET", "/db/query?level=strong&q="+url.QueryEscape("SELECT COUNT(*) FROM t"), nil, nil)
			}(l)
			defer func() { <-bg }()
			time.Sleep(200 * time.Millisecond)
			lastKind = "inflight-strong-read"
		case "barrier":
			if err := l.Store.Barrier(); err != nil {
				return fail("barrier: %v", err)
			}
			lastKind = "barrier"
		case "snapshot":
			if err := l.Store.Snapshot(0); err != nil && !strings.Contains(err.Error(), "nothing new to snapshot") &&
				!strings.Contains(err.Error(), "wait until the configuration entry") &&
				!strings.Contains(err.Error(), "no WAL data available") {
				return fail("snapshot: %v", err)
			}
		case "snapshot-trunc1", "snapshot-trunc2", "snapshot-trunc3":
			// user snapshot that keeps only 1-3 trailing log entries (/snapshot?trailing_logs=n)
			n := uint64(op[len(op)-1] - '0')
			if err := l.Store.Snapshot(n); err != nil && !strings.Contains(err.Error(), "nothing new to snapshot") &&
				!strings.Contains(err.Error(), "wait until the configuration entry") &&
				!strings.Contains(err.Error(), "no WAL data available") {
				return fail("snapshot-trunc: %v", err)
			}
		case "noop":
			f, err := l.Store.Noop("c38")
			if err != nil {
				return fail("noop: %v", err)
			}
			if err := f.Error(); err != nil {
				return fail("noop apply: %v", err)
			}
			lastKind = "command"
		}
	}
	l = cl.WaitLeader(15 * time.Second)
	if l == nil {
		return fail("no leader before reads")
	}
	if !cl.WaitConverged(10 * time.Second) {
		return fail("followers did not converge")
	}
	res.Nodes = len(cl.Live())
	res.LastKind = lastKind
	retries := 0
	for i := 0; i < 3; i++ {
		l = cl.WaitLeader(10 * time.Second)
		if l == nil {
			return fail("leader lost during reads")
		}
		t0 := time.Now()
		r := cl.Do(l, "GET", "/db/query?level=linearizable&q="+url.QueryEscape("SELECT COUNT(*) FROM t"), nil, nil)
		rd := readR{Status: r.Status, Want: want, Ms: float64(time.Since(t0).Microseconds()) / 1000}
		if r.Err != nil {
			rd.Err = r.Err.Error()
		} else if a, err := r.Parse(); err != nil {
			rd.Err = err.Error()
		} else if a.Error != "" {
			rd.Err = a.Error
		} else if len(a.Results) != 1 || a.Results[0].Error != "" {
			if len(a.Results) == 1 {
				rd.Err = a.Results[0].Error
			} else {
				rd.Err = "no result"
			}
		} else if len(a.Results[0].Values) == 1 && len(a.Results[0].Values[0]) == 1 {
			if num, ok := a.Results[0].Values[0][0].(json.Number); ok {
				rd.Rows, _ = num.Int64()
			}
		}
		if strings.Contains(rd.Err, "not leader") || strings.Contains(rd.Err, "leader not found") || strings.Contains(rd.Err, "leadership transfer in progress") || strings.Contains(rd.Err, "leadership lost") {
			// leadership moved (or is momentarily absent) between WaitLeader and the
			// read: the property is about a node that is leader; retry, not a verdict
			retries++
			if retries > 40 {
				return fail("no stable leader for the final reads")
			}
			i--
			time.Sleep(150 * time.Millisecond)
			continue
		}
		res.Reads = append(res.Reads, rd)
		time.Sleep(50 * time.Millisecond)
	}
	return res
}
