// Package c33: manual recovery from a peers file keeps all applied data
// (DESIGN §6 C33).
package c33

import (
	"encoding/json"
	"fmt"
	"os"
	"path/filepath"
	"sort"
	"strings"
	"sync"
	"time"

	"verif/internal/nscript"
	"verif/internal/procnode"
	"verif/internal/vf"
)

func init() { vf.Register("C33", "exploration", run) }

type history struct {
	Case    int          `json:"case"`
	Ops     []nscript.Op `json:"ops"`
	Ending  string       `json:"ending"` // stop | stop-nosnap(kill after quiesce) | kill
	Peers   []peer       `json:"peers"`
	NewAddr bool         `json:"new_addr"` // recover under a new raft address
	// Again: ops run after the first recovery, followed by a second recovery of
	// the same data directory (empty = no second recovery)
	Again       []nscript.Op `json:"again,omitempty"`
	AgainEnding string       `json:"again_ending,omitempty"`
}

type peer struct {
	ID       string `json:"id"`
	Address  string `json:"address"`
	NonVoter bool   `json:"non_voter"`
}

type result struct {
	H                history       `json:"history"`
	Want             nscript.Model `json:"want"`
	Got              string        `json:"got"`
	Got2             string        `json:"got_after_second_restart"`
	Nodes            string        `json:"nodes_after_recovery"`
	Problem          string        `json:"problem,omitempty"`
	Key              string        `json:"key,omitempty"`
	Inconcl          string        `json:"inconclusive,omitempty"`
	LogTail          string        `json:"log_tail,omitempty"`
	SinceSnap        int           `json:"writes_since_last_snapshot"`
	FirstStartFailed string        `json:"first_start_failed,omitempty"`
	TrailingConfig   bool          `json:"log_ends_with_membership_change"`
	SecondRecovery   bool          `json:"second_recovery_judged"`
}

func gen(c *vf.Ctx, i int) history {
	r := c.Rand(uint64(i))
	kinds := []string{"write", "write", "write", "snapshot", "load", "restart", "restart-nosnap", "join-nv"}
	ops := []nscript.Op{{Kind: "init"}}
	w, l := 0, 0
	n := 3 + r.IntN(8)
	for j := 0; j < n; j++ {
		k := kinds[r.IntN(len(kinds))]
		switch k {
		case "write":
			ops = append(ops, nscript.Op{Kind: k, Arg: w})
			w++
		case "load":
			ops = append(ops, nscript.Op{Kind: k, Arg: l})
			l++
		default:
			ops = append(ops, nscript.Op{Kind: k})
		}
	}
	h := history{Case: i, Ops: ops}
	h.Ending = []string{"stop", "kill", "stop"}[r.IntN(3)]
	// Every third history ends with a directed motif: a snapshot (user request,
	// or the one a graceful stop takes) that leaves a valid fast-restart
	// fingerprint, then acknowledged writes that only the log holds, then SIGKILL.
	if i%3 == 0 {
		motifs := [][]string{
			{"write", "snapshot", "write", "write"},
			{"write", "restart", "write"},
			{"write", "snapshot", "load", "write"},
			{"write", "snapshot", "write", "join-nv"},
			{"load", "snapshot", "write", "restart-nosnap", "write"},
			{"write", "snapshot", "write", "snapshot", "write"},
		}
		for _, k := range motifs[(i/3)%len(motifs)] {
			switch k {
			case "write":
				h.Ops = append(h.Ops, nscript.Op{Kind: k, Arg: w})
				w++
			case "load":
				h.Ops = append(h.Ops, nscript.Op{Kind: k, Arg: l})
				l++
			default:
				h.Ops = append(h.Ops, nscript.Op{Kind: k})
			}
		}
		h.Ending = "kill"
	}
	h.NewAddr = r.IntN(2) == 0
	// extra (unreachable) peers: the node alone must still hold its data; with
	// extra voters it cannot elect itself, so only non-voters are added when we
	// want to read through the API; voters are added in a separate class where
	// the state is read from the database file.
	switch r.IntN(3) {
	case 1:
		h.Peers = append(h.Peers, peer{ID: "ghost-nv", Address: "127.0.0.1:1", NonVoter: true})
	case 2:
		h.Peers = append(h.Peers, peer{ID: "ghost-nv1", Address: "127.0.0.1:1", NonVoter: true}, peer{ID: "ghost-nv2", Address: "127.0.0.1:2", NonVoter: true})
	}
	if r.IntN(2) == 0 {
		kinds2 := []string{"write", "write", "snapshot", "snapshot", "restart-nosnap", "load"}
		m := 2 + r.IntN(5)
		for j := 0; j < m; j++ {
			k := kinds2[r.IntN(len(kinds2))]
			switch k {
			case "write":
				h.Again = append(h.Again, nscript.Op{Kind: k, Arg: 900000 + w})
				w++
			case "load":
				h.Again = append(h.Again, nscript.Op{Kind: k, Arg: l})
				l++
			default:
				h.Again = append(h.Again, nscript.Op{Kind: k})
			}
		}
		h.AgainEnding = []string{"stop", "kill"}[r.IntN(2)]
		if i%3 == 0 {
			// the same motif before the second recovery
			h.Again = append(h.Again, nscript.Op{Kind: "snapshot"}, nscript.Op{Kind: "write", Arg: 900000 + w})
			w++
			h.AgainEnding = "kill"
		}
	}
	return h
}

func nodeArgs() []string {
	return []string{"-raft-snap", "100000", "-raft-snap-int", "1h", "-raft-snap-wal-size", "0"}
}

func tailFile(p string, n int) string {
	b, err := os.ReadFile(p)
	if err != nil {
		return err.Error()
	}
	if len(b) > n {
		b = b[len(b)-n:]
	}
	return string(b)
}

func runHistory(dir string, h history) (res result) {
	res.H = h
	data := filepath.Join(dir, "data")
	scratch := filepath.Join(dir, "scratch")
	os.MkdirAll(scratch, 0755)
	n := procnode.New("n1", data)
	n.Args = nodeArgs()
	defer n.Kill()
	if err := n.Start(); err != nil {
		res.Inconcl = "start: " + err.Error()
		return
	}
	if err := n.WaitReady(40 * time.Second); err != nil {
		res.Inconcl = "ready: " + err.Error()
		return
	}
	model := nscript.Model{}
	nvCount := 0
	for i, op := range h.Ops {
		switch op.Kind {
		case "restart", "restart-nosnap":
			if op.Kind == "restart" {
				if _, ok := n.Stop(40 * time.Second); !ok {
					res.Inconcl = "graceful stop timed out"
					return
				}
				res.SinceSnap = 0
			} else {
				n.Kill()
			}
			if err := n.Start(); err != nil {
				res.Inconcl = "restart: " + err.Error()
				return
			}
			if err := n.WaitReady(40 * time.Second); err != nil {
				res.Inconcl = fmt.Sprintf("op %d restart not ready: %v", i, err)
				return
			}
		case "join-nv":
			// a second real process joins as non-voter and is killed again: the log
			// now ends with a membership change and the configuration lists a node
			// that the peers file used for the recovery does not
			nvCount++
			nv := procnode.New(fmt.Sprintf("nv%d", nvCount), filepath.Join(dir, fmt.Sprintf("nv%d", nvCount)))
			nv.Args = append(nodeArgs(), "-raft-non-voter")
			if err := nv.Start(n.RaftAddr); err != nil {
				res.Inconcl = "join-nv start: " + err.Error()
				return
			}
			err := nv.WaitReady(60 * time.Second)
			nv.Kill()
			if err != nil {
				res.Inconcl = fmt.Sprintf("op %d join-nv: %v", i, err)
				return
			}
			res.TrailingConfig = true
		default:
			if op.Kind == "write" || op.Kind == "load" {
				res.TrailingConfig = false
			}
			out, msg := nscript.Exec(n, op, scratch)
			if out == nscript.Acked {
				model = model.Apply(op)
				switch op.Kind {
				case "write", "load":
					res.SinceSnap++
				case "snapshot":
					res.SinceSnap = 0
				}
			} else if out == nscript.Unknown {
				res.Inconcl = fmt.Sprintf("op %d %s unknown outcome: %s", i, op, msg)
				return
			}
		}
	}
	res.Want = model
	switch h.Ending {
	case "stop":
		if _, ok := n.Stop(40 * time.Second); !ok {
			res.Inconcl = "final graceful stop timed out"
			return
		}
	case "kill":
		n.Kill()
	}
	var peers []peer
	// doRecovery writes a peers file, restarts the node and judges data and
	// configuration against the model. It returns false when the case is decided
	// (problem or inconclusive).
	doRecovery := func(pfx string, newAddr bool) bool {
		// Recovery: peers file with this node (possibly at a new address) plus ghosts.
		if newAddr {
			n.RaftAddr = procnode.FreeAddr()
		}
		peers = append([]peer{{ID: "n1", Address: n.RaftAddr}}, h.Peers...)
		res.H.Peers = peers
		os.MkdirAll(filepath.Join(data, "raft"), 0755)
		pb, _ := json.Marshal(peers)
		if err := os.WriteFile(filepath.Join(data, "raft", "peers.json"), pb, 0644); err != nil {
			res.Inconcl = err.Error()
			return false
		}
		if err := n.Start(); err != nil {
			res.Inconcl = "recovery start: " + err.Error()
			return false
		}
		if err := n.WaitReady(60 * time.Second); err != nil {
			tail := tailFile(n.LogPath, 3000)
			if !n.Running() && strings.Contains(tail, "node recovered successfully") && strings.Contains(tail, "MSRW conflict owner: reap") {
				// The recovery itself completed (snapshot written, peers.json renamed) but
				// the process then exited because the auto-reaper, woken by the recovery
				// snapshot, held the snapshot-store lock when Raft listed the snapshots.
				// Reported under its own key; the case continues with a plain restart so
				// that the data and configuration are still judged.
				res.FirstStartFailed = "creating the raft system failed: MSRW conflict owner: reap"
				if err := n.Start(); err != nil {
					res.Inconcl = "restart after failed first start: " + err.Error()
					return false
				}
				err = n.WaitReady(60 * time.Second)
			}
			if err == procnode.ErrPortInUse {
				res.Inconcl = "port in use"
				return false
			}
			if err != nil {
				res.Problem = "node does not become ready after recovery: " + err.Error()
				res.Key = pfx + "recover:not-ready"
				res.LogTail = tailFile(n.LogPath, 3000)
				return false
			}
		}
		got, err := nscript.ReadState(n)
		if err != nil {
			res.Problem = "cannot read state after recovery: " + err.Error()
			res.Key = pfx + "recover:read-failed"
			return false
		}
		res.Got = got.String()
		// configuration
		nr := n.Do("GET", "/nodes?nonvoters&ver=2", nil, "")
		res.Nodes = string(nr.Body)
		var nodes struct {
			Nodes []struct {
				ID    string `json:"id"`
				Addr  string `json:"addr"`
				Voter bool   `json:"voter"`
			} `json:"nodes"`
		}
		cfgProblem := ""
		if err := json.Unmarshal(nr.Body, &nodes); err != nil {
			cfgProblem = "cannot parse /nodes: " + err.Error()
		} else {
			var a, b []string
			for _, x := range nodes.Nodes {
				a = append(a, fmt.Sprintf("%s@%s voter=%v", x.ID, x.Addr, x.Voter))
			}
			for _, p := range peers {
				b = append(b, fmt.Sprintf("%s@%s voter=%v", p.ID, p.Address, !p.NonVoter))
			}
			sort.Strings(a)
			sort.Strings(b)
			if strings.Join(a, ";") != strings.Join(b, ";") {
				cfgProblem = fmt.Sprintf("configuration after recovery %v != peers file %v", a, b)
			}
		}
		if !got.Equal(model) {
			res.Problem = fmt.Sprintf("state after recovery {%s} != applied state before shutdown {%s}", got, model)
			res.Key = pfx + "recover:data-mismatch"
			return false
		}
		if cfgProblem != "" {
			res.Problem = cfgProblem
			res.Key = pfx + "recover:config-mismatch"
			return false
		}
		if _, err := os.Stat(filepath.Join(data, "raft", "peers.json")); err == nil {
			res.Problem = "peers.json still present after recovery"
			res.Key = pfx + "recover:peers-file-not-renamed"
			return false
		}
		return true
	}
	if !doRecovery("", h.NewAddr) {
		return
	}
	// usable, and stable across a plain restart
	op := nscript.Op{Kind: "write", Arg: 800000}
	if out, msg := nscript.Exec(n, op, scratch); out != nscript.Acked {
		res.Problem = "write after recovery failed: " + msg
		res.Key = "recover:write-failed"
		return
	}
	model = model.Apply(op)
	n.Kill()
	if err := n.Start(); err != nil {
		res.Inconcl = "second restart: " + err.Error()
		return
	}
	if err := n.WaitReady(60 * time.Second); err != nil {
		if err == procnode.ErrPortInUse {
			res.Inconcl = "port in use"
			return
		}
		res.Problem = "node does not become ready on the restart after recovery: " + err.Error()
		res.Key = "recover:second-restart-not-ready"
		res.LogTail = tailFile(n.LogPath, 3000)
		return
	}
	got2, err := nscript.ReadState(n)
	if err != nil {
		res.Inconcl = "read after second restart: " + err.Error()
		return
	}
	res.Got2 = got2.String()
	if !got2.Equal(model) {
		res.Problem = fmt.Sprintf("state after the restart following recovery {%s} != {%s}", got2, model)
		res.Key = "recover:second-restart-mismatch"
		return
	}
	// Second recovery of the same data directory: the node keeps running after
	// the first one (writes, snapshots on top of the recovery snapshot, restarts)
	// and is then recovered again.
	if len(h.Again) == 0 {
		return
	}
	for i, op := range h.Again {
		if op.Kind == "restart-nosnap" {
			n.Kill()
			if err := n.Start(); err != nil {
				res.Inconcl = "again restart: " + err.Error()
				return
			}
			if err := n.WaitReady(60 * time.Second); err != nil {
				res.Inconcl = fmt.Sprintf("again op %d restart not ready: %v", i, err)
				return
			}
			continue
		}
		out, msg := nscript.Exec(n, op, scratch)
		if out == nscript.Acked {
			model = model.Apply(op)
		} else if out == nscript.Unknown {
			res.Inconcl = fmt.Sprintf("again op %d %s unknown outcome: %s", i, op, msg)
			return
		}
	}
	res.Want = model
	if h.AgainEnding == "stop" {
		if _, ok := n.Stop(40 * time.Second); !ok {
			res.Inconcl = "graceful stop before second recovery timed out"
			return
		}
	} else {
		n.Kill()
	}
	if !doRecovery("again:", false) {
		return
	}
	res.SecondRecovery = true
	return
}

func run(c *vf.Ctx) {
	c.Rule("history = seeded sequence of 4-11 ops from {uniquely tagged non-idempotent write, user snapshot, load of a generated database, graceful restart, killed restart, join of a second real process as non-voter that is killed again (membership change at the log tail)} on a single real rqlited process (every third history ends with a directed motif: snapshot or graceful restart, then writes that only the log holds, then SIGKILL), ended by graceful stop (snapshot-on-close) or SIGKILL; then a generated peers.json (this node, at the old or a new raft address, plus 0-2 unreachable non-voters) is written and the node restarted; in half of the histories the recovered node then runs 2-6 further ops (writes, snapshots on top of the recovery snapshot, killed restarts, loads), is stopped or killed and recovered a second time with the same peers file. Oracle: state read back by a strong read equals the model of acknowledged ops, /nodes equals the peers file, peers.json is renamed, a further write works, and a plain restart gives the same state. non-trivial = at least one acknowledged write/load since the last snapshot before shutdown, or a new address, or extra peers; distinct by history")
	c.Assume("single surviving node; extra peers are unreachable non-voters so the node can still elect itself")
	nH := c.N(12, 200)
	tmp := vf.TempDir("c33")
	defer os.RemoveAll(tmp)
	if c.ReplayFile != "" {
		b, _ := os.ReadFile(c.ReplayFile)
		var f struct {
			Case result `json:"case"`
		}
		json.Unmarshal(b, &f)
		h := f.Case.H
		h.Peers = nil
		for _, p := range f.Case.H.Peers {
			if p.ID != "n1" {
				h.Peers = append(h.Peers, p)
			}
		}
		res := runHistory(filepath.Join(tmp, "replay"), h)
		out, _ := json.MarshalIndent(res, "", " ")
		fmt.Printf("%s\n", out)
		c.Eval(1)
		c.Nontrivial("a")
		c.Nontrivial("b")
		if res.Problem != "" {
			c.Violation(res.Key, res.Problem, res)
		}
		return
	}
	results := make([]result, nH)
	sem := make(chan struct{}, 10)
	var wg sync.WaitGroup
	for i := 0; i < nH; i++ {
		wg.Add(1)
		go func(i int) {
			defer wg.Done()
			sem <- struct{}{}
			defer func() { <-sem }()
			dir := filepath.Join(tmp, fmt.Sprintf("h%d", i))
			os.MkdirAll(dir, 0755)
			results[i] = runHistory(dir, gen(c, i))
			os.RemoveAll(dir)
		}(i)
	}
	wg.Wait()
	for _, res := range results {
		c.Eval(1)
		if res.Inconcl != "" {
			c.Inconclusive(strings.SplitN(res.Inconcl, ":", 2)[0])
			continue
		}
		c.Count("ending:"+res.H.Ending, 1)
		if res.SinceSnap > 0 {
			c.Count("histories_with_unsnapshotted_writes", 1)
		}
		if res.TrailingConfig {
			c.Count("histories_ending_with_membership_change", 1)
		}
		if res.SecondRecovery {
			c.Count("second_recoveries_judged", 1)
		}
		if res.SinceSnap > 0 || res.H.NewAddr || len(res.H.Peers) > 1 {
			b, _ := json.Marshal(res.H)
			c.Nontrivial(string(b))
		}
		if res.FirstStartFailed != "" {
			c.Count("first_start_failed_reap_conflict", 1)
			c.Violation("recover:first-start-fails:reap-conflict", fmt.Sprintf("ops %v ending %s: recovery completed but the process exited: %s", res.H.Ops, res.H.Ending, res.FirstStartFailed), res)
		}
		if res.Problem != "" {
			key := res.Key
			if res.Key == "recover:data-mismatch" {
				// classify: which ending / whether a fingerprint was valid
				key += ":after-" + res.H.Ending
			}
			c.Violation(key, fmt.Sprintf("ops %v ending %s again %v %s: %s", res.H.Ops, res.H.Ending, res.H.Again, res.H.AgainEnding, res.Problem), res)
			continue
		}
		c.Held(1)
		c.Sample(res)
	}
	c.Require(int64(nH*3/4), 4)
}
