// Package c34: coordination primitives are safe and make progress (DESIGN §6
// C34). A worker child (normal and -race build) hammers the real
// rsync.CheckAndSet / MultiRSW / ReadyTarget[uint64] (through vexport) from many
// goroutines and records hold intervals, occupancy observations, signal /
// subscribe / wake events stamped by one logical clock; the parent decides
// offline over that log.
package c34

import (
	"bufio"
	"bytes"
	"encoding/json"
	"fmt"
	"math/rand/v2"
	"os"
	"path/filepath"
	"sort"
	"strconv"
	"strings"
	"sync"
	"time"

	"verif/internal/vf"
)

const anchoredPkg = "github.com/rqlite/rqlite/v10/internal/rsync."

func init() {
	vf.Register("C34", "exploration", run)
	vf.RegisterWorker("c34", worker)
}

type verdict struct{ key, what string }

// progress bounds (wall clock, wide): <= progHeld is fine, up to progMax is
// inconclusive, beyond progMax (the worker gave up waiting) with a healthy
// heartbeat is a violation.
const (
	progHeldUS  = 2_000_000
	hbHealthyUS = 500_000
)

type judged struct {
	vs        []verdict
	inconcl   string
	nontriv   bool
	intervals int64
}

// overlapCheck: sort by acquire stamp, sweep. excl(a,b) says whether modes a and
// b exclude each other.
func overlapCheck(holds [][4]int64, kind string) (vs []verdict, rrOverlaps int64) {
	hs := append([][4]int64(nil), holds...)
	sort.Slice(hs, func(i, j int) bool { return hs[i][1] < hs[j][1] })
	// furthest release seen so far among writers (or gate holders) and readers
	var maxRelW, maxRelR int64 = -1, -1
	var whoW, whoR int64
	for _, h := range hs {
		if h[2] <= h[1] {
			vs = append(vs, verdict{kind + ":log-corrupt", fmt.Sprintf("hold interval with release stamp %d <= acquire stamp %d", h[2], h[1])})
			continue
		}
		isW := kind == "gate" || h[3] == 1
		if h[1] < maxRelW {
			if kind == "gate" {
				vs = append(vs, verdict{"gate:two-holders", fmt.Sprintf("goroutine %d was inside the gate at stamp %d while goroutine %d had not yet left (its release stamp %d)", h[0], h[1], whoW, maxRelW)})
			} else if isW {
				vs = append(vs, verdict{"mrsw:two-writers", fmt.Sprintf("writer %d inside at stamp %d while writer %d was still inside (until %d)", h[0], h[1], whoW, maxRelW)})
			} else {
				vs = append(vs, verdict{"mrsw:reader-with-writer", fmt.Sprintf("reader %d inside at stamp %d while writer %d was still inside (until %d)", h[0], h[1], whoW, maxRelW)})
			}
		}
		if h[1] < maxRelR {
			if isW {
				vs = append(vs, verdict{"mrsw:writer-with-reader", fmt.Sprintf("writer %d inside at stamp %d while reader %d was still inside (until %d)", h[0], h[1], whoR, maxRelR)})
			} else {
				rrOverlaps++
			}
		}
		if isW {
			if h[2] > maxRelW {
				maxRelW, whoW = h[2], h[0]
			}
		} else if h[2] > maxRelR {
			maxRelR, whoR = h[2], h[0]
		}
		if len(vs) >= 6 {
			break
		}
	}
	return vs, rrOverlaps
}

func judge(s caseSpec, lg caseLog) (j judged) {
	add := func(k, f string, a ...any) {
		if len(j.vs) < 8 {
			j.vs = append(j.vs, verdict{k, fmt.Sprintf(f, a...)})
		}
	}
	if lg.Skip != "" {
		j.inconcl = lg.Skip
		return
	}
	if lg.Panic != "" {
		add(s.Kind+":panic", "primitive panicked under correct use: %s", lg.Panic)
	}
	if lg.Stuck {
		healthy := lg.HBGapUS < hbHealthyUS
		switch {
		case s.Kind == "mrsw" && healthy && lg.OccR == 0 && lg.OccW == 0 && lg.BlockedR+lg.BlockedW > 0:
			add("mrsw:blocked-with-nothing-held", "%d blocking reader(s) and %d blocking writer(s) still blocked although nobody has been inside the lock for 10 s (heartbeat gap %d us)", lg.BlockedR, lg.BlockedW, lg.HBGapUS)
		default:
			j.inconcl = fmt.Sprintf("no operation completed for 10 s (%s; heartbeat gap %d us)", s.Kind, lg.HBGapUS)
		}
		return
	}
	n := lg.N
	switch s.Kind {
	case "gate":
		vs, _ := overlapCheck(lg.Holds, "gate")
		j.vs = append(j.vs, vs...)
		j.intervals = int64(len(lg.Holds))
		if n["occupancy_violation"] > 0 {
			add("gate:two-holders", "occupancy counter saw %d entries into an occupied gate", n["occupancy_violation"])
		}
		if n["owner_not_holder"] > 0 {
			add("gate:owner-not-holder", "%d times Owner() did not name the goroutine that was inside the gate", n["owner_not_holder"])
		}
		if n["owner_garbage"] > 0 {
			add("gate:owner-not-holder", "%d times Owner() returned a name nobody ever passed", n["owner_garbage"])
		}
		if n["refused_when_free"] > 0 || n["owner_after_end"] > 0 {
			add("gate:stuck-after-release", "after every holder called End the gate still refused Begin (or still named an owner)")
		}
		if n["unexpected_error"] > 0 {
			add("gate:unexpected-error", "%d Begin/BeginWithRetry failures were neither ErrCASConflict nor ErrCASConflictTimeout", n["unexpected_error"])
		}
		j.nontriv = n["conflict"]+n["retry_timeout"] > 0 && n["goroutines_that_held"] >= 2
	case "mrsw":
		vs, rr := overlapCheck(lg.Holds, "mrsw")
		j.vs = append(j.vs, vs...)
		j.intervals = int64(len(lg.Holds))
		if n["occupancy_violation"] > 0 {
			add("mrsw:occupancy", "occupancy counters saw %d entries that met a conflicting holder (reader with writer, or second writer)", n["occupancy_violation"])
		}
		if n["refused_when_free"] > 0 {
			add("mrsw:stuck-after-release", "the free lock refused a try-acquire after everything was released")
		}
		for _, p := range lg.Prog {
			sc, lat, gap := p[0], p[1], p[2]
			switch {
			case gap >= hbHealthyUS:
				if j.inconcl == "" {
					j.inconcl = fmt.Sprintf("process stalled during progress scenario %d (heartbeat gap %d us)", sc, gap)
				}
			case lat < 0:
				add("mrsw:blocked-after-release", "scenario %d: %d blocking acquirer(s) still blocked 10 s after every holder released (heartbeat gap %d us)", sc, p[3], gap)
			case lat > progHeldUS:
				if j.inconcl == "" {
					j.inconcl = fmt.Sprintf("blocking acquirer needed %d us after release (scenario %d)", lat, sc)
				}
			}
		}
		blocking := n["acquired_r_blocking"] + n["acquired_w_blocking"]
		writers := n["acquired_w_try"] + n["acquired_w_blocking"] + n["acquired_w_upgrade"]
		j.nontriv = n["conflict"] > 0 && blocking > 0 && writers > 0 && rr > 0 && len(lg.Prog) == 3
	default:
		judgeRT(lg, add, &j)
	}
	return
}

func judgeRT(lg caseLog, add func(k, f string, a ...any), j *judged) {
	sigs, resets := lg.Signals, lg.ResetEv
	for _, l := range lg.Lost {
		add("rt:not-woken:signal-already-returned", "Subscribe(%d) (stamps %d..%d) returned a channel that was still open although Signal(%d) had already returned: neither call noticed the other (lost wake-up; %d such observations in this case)", l[0], l[2], l[3], l[1], lg.N["lost_wakeup_observed"])
		break
	}
	var wokenLater, immediate int
	for _, sb := range lg.Subs {
		t, pre, post, imm, wake, unsub, closedEnd := sb[0], sb[1], sb[2], sb[3], sb[4], sb[5], sb[6]
		if imm != 0 {
			immediate++
		} else if wake != 0 {
			wokenLater++
		}
		// --- never before: a closed channel needs a Signal(>= target) that began
		// before the wake was observed and was not certainly wiped by a Reset that
		// completed before Subscribe began.
		if t > 0 && (wake != 0 || closedEnd != 0) {
			w := wake
			if w == 0 {
				w = int64(1) << 62 // only seen closed at the end: any signal call counts
			}
			var wipe int64 = -1 // latest start of a Reset that completed before this Subscribe began
			for _, r := range resets {
				if r[1] < pre && r[0] > wipe {
					wipe = r[0]
				}
			}
			ok := false
			for _, g := range sigs {
				if g[2] >= t && g[0] < w && g[1] > wipe {
					ok = true
					break
				}
			}
			if !ok {
				add("rt:woken-early", "subscriber for target %d (subscribed at stamps %d..%d) saw its channel closed at stamp %d, but no Signal(>=%d) call had begun by then", t, pre, post, wake, t)
			}
		}
		noResetSince := func(from, to int64) bool { // no Reset possibly effective in (from, to)
			for _, r := range resets {
				if r[1] > from && r[0] < to {
					return false
				}
			}
			return true
		}
		// --- already reached: Subscribe must hand back a closed channel
		if imm == 0 {
			if t == 0 {
				add("rt:not-woken", "Subscribe(0) did not return a closed channel")
			} else {
				for _, g := range sigs {
					if g[2] >= t && g[1] < pre && noResetSince(g[0], post) {
						add("rt:not-woken", "Subscribe(%d) at stamps %d..%d returned an open channel although Signal(%d) had returned at stamp %d and no Reset intervened", t, pre, post, g[2], g[1])
						break
					}
				}
			}
		}
		// --- reached later: once a Signal(>= target) that began after Subscribe
		// returned has itself returned, the channel is closed (checked at quiescence)
		if closedEnd == 0 && unsub == 0 && noResetSince(pre, int64(1)<<62) {
			for _, g := range sigs {
				if g[2] >= t && g[0] > post {
					add("rt:not-woken", "subscriber for target %d (subscribed at stamps %d..%d, never unsubscribed, no Reset afterwards) still has an open channel after Signal(%d) ran at stamps %d..%d", t, pre, post, g[2], g[0], g[1])
					break
				}
			}
		}
	}
	j.intervals = int64(len(lg.Subs))
	j.nontriv = wokenLater > 0 && immediate > 0 && len(sigs) > 0
}

// ---------------------------------------------------------------- driver

func genCase(no int, r *rand.Rand) caseSpec {
	s := caseSpec{No: no, Seed: r.Uint64()}
	s.Kind = []string{"gate", "gate", "gate", "mrsw", "mrsw", "mrsw", "mrsw", "rt", "rt", "rt"}[r.IntN(10)]
	s.G = 2 + r.IntN(7)
	s.YieldPct = []int{0, 5, 20, 50}[r.IntN(4)]
	s.SleepMaxUS = []int{0, 20, 200}[r.IntN(3)]
	s.HoldYields = []int{0, 1, 3}[r.IntN(3)]
	switch s.Kind {
	case "gate":
		s.OpsPer = 6000 / s.G
	case "mrsw":
		s.OpsPer = 6000 / s.G
		s.ReadPct = []int{20, 50, 80, 95}[r.IntN(4)]
		s.BlockPct = []int{10, 50, 90}[r.IntN(3)]
	default:
		s.OpsPer = 2000 / s.G
		s.Signalers = 1 + r.IntN(2)
		s.SignalsPer = 200 / s.Signalers
		if s.SleepMaxUS == 0 {
			s.SleepMaxUS = 20
		}
		if r.IntN(4) == 0 {
			s.Resets = 1 + r.IntN(4)
		}
	}
	return s
}

func run(c *vf.Ctx) {
	c.Rule("case = one primitive (gate / multi-reader-single-writer lock / ready-target) x seeded parameters (2-8 goroutines, ~6k operations (ready-target: ~2k subscriptions against ~200 signals), try/blocking/retry/upgrade mix, yields, hold lengths, 0-4 concurrent Resets), run on the real primitives through vexport in a child process, once in the normal and once in the -race build. non-trivial = contention was observed (gate: refused Begins and >=2 different holders; lock: refused tries, blocking acquires, writers, overlapping readers and all three progress scenarios ran; ready-target: subscribers woken by a later Signal as well as immediately-closed subscriptions); distinct by (parameters, build)")
	c.Assume("hold intervals are stamped inside the critical section (after a successful acquire, before the release), so two overlapping stamp intervals mean two holders were really inside together")
	c.Assume("ready-target wake-ups are judged on logical stamps only: a closed channel needs a Signal(>=target) call that began before the wake was observed (and was not wiped by a Reset completed before Subscribe began); an open channel is a violation only when a sufficient Signal certainly took effect while the subscriber was registered and no Reset could have dropped it")
	c.Assume("progress (wall clock, used only here): blocking acquirers are released after every holder left; <=2 s held, 2-10 s or a heartbeat gap >=0.5 s inconclusive, still blocked after 10 s with a healthy heartbeat = violation")

	nCases := c.N(150, 1500)
	chunk := c.N(10, 25)
	par := 4
	tmp := vf.TempDir("c34")
	defer os.RemoveAll(tmp)
	r := c.Rand(1)
	specs := make([]caseSpec, nCases)
	for i := range specs {
		specs[i] = genCase(i, r)
	}
	type job struct {
		lo, hi int
		race   bool
	}
	var jobs []job
	for lo := 0; lo < nCases; lo += chunk {
		hi := min(lo+chunk, nCases)
		jobs = append(jobs, job{lo, hi, false}, job{lo, hi, true})
	}
	var mu sync.Mutex
	tot := map[string]int64{}
	var racePrefixes []string
	sampled := map[string]int{}
	crashSeen := map[int]bool{}
	var crashTails, crashInPkg []string
	jobCh := make(chan int)
	var wg sync.WaitGroup
	for p := 0; p < par; p++ {
		wg.Add(1)
		go func() {
			defer wg.Done()
			for ji := range jobCh {
				j := jobs[ji]
				specFile := filepath.Join(tmp, fmt.Sprintf("spec-%d.json", ji))
				b, _ := json.Marshal(specs[j.lo:j.hi])
				os.WriteFile(specFile, b, 0644)
				prefix := filepath.Join(tmp, fmt.Sprintf("race-%d", ji))
				env := []string{"GORACE=halt_on_error=0 log_path=" + prefix}
				if j.race {
					mu.Lock()
					racePrefixes = append(racePrefixes, prefix)
					mu.Unlock()
				}
				logPath := filepath.Join(tmp, fmt.Sprintf("worker-%d.log", ji))
				out, code, intime := vf.RunWorkerOnce(j.race, "c34", []string{specFile}, env, logPath, 15*time.Minute)
				os.Remove(specFile)
				seen := map[int]bool{}
				sc := bufio.NewScanner(bytes.NewReader(out))
				sc.Buffer(make([]byte, 1<<20), 1<<28)
				for sc.Scan() {
					line := sc.Bytes()
					if bytes.HasPrefix(line, []byte(`{"cases":`)) || bytes.Contains(line[:min(len(line), 40)], []byte(`"summary"`)) {
						continue
					}
					var lg caseLog
					if err := json.Unmarshal(line, &lg); err != nil || lg.No < j.lo || lg.No >= j.hi || seen[lg.No] {
						continue
					}
					seen[lg.No] = true
					s := specs[lg.No]
					build := "normal"
					if j.race {
						build = "race"
					}
					c.Eval(1)
					jd := judge(s, lg)
					mu.Lock()
					tot["cases_"+s.Kind]++
					tot["intervals_or_subscriptions_"+s.Kind] += jd.intervals
					for k, v := range lg.N {
						tot[s.Kind+"_"+k] += v
					}
					tot["rt_signals"] += int64(len(lg.Signals))
					tot["rt_resets"] += int64(len(lg.ResetEv))
					for _, p := range lg.Prog {
						tot["mrsw_progress_scenarios"]++
						if p[1] > tot["mrsw_progress_latency_max_us"] {
							tot["mrsw_progress_latency_max_us"] = p[1]
						}
					}
					for _, sb := range lg.Subs {
						if sb[3] != 0 {
							tot["rt_subs_immediate"]++
						} else if sb[4] != 0 {
							tot["rt_subs_woken_later"]++
						}
						if sb[5] != 0 {
							tot["rt_subs_unsubscribed"]++
						}
					}
					doSample := jd.nontriv && len(jd.vs) == 0 && sampled[s.Kind] < 2
					if doSample {
						sampled[s.Kind]++
					}
					mu.Unlock()
					if len(jd.vs) > 0 {
						for _, v := range jd.vs {
							c.Violation(v.key, fmt.Sprintf("[%s build, case %d] %s", build, s.No, v.what), map[string]any{"spec": s, "build": build, "counters": lg.N, "prog": lg.Prog})
						}
						continue
					}
					if jd.inconcl != "" {
						c.Inconclusive(jd.inconcl)
						continue
					}
					c.Held(1)
					if jd.nontriv {
						sb, _ := json.Marshal(s)
						c.Nontrivial(build + string(sb))
					}
					if doSample {
						c.Sample(map[string]any{"spec": s, "build": build, "counters": lg.N, "hold_intervals": len(lg.Holds), "first_holds": first4(lg.Holds, 4),
							"progress_scenarios": lg.Prog, "signals": len(lg.Signals), "subscriptions": len(lg.Subs), "first_subs": first8(lg.Subs, 3), "wall_us": lg.Wall})
					}
				}
				for no := j.lo; no < j.hi; no++ {
					if !seen[no] {
						c.Eval(1)
						why := "worker produced no log for the case"
						if !intime {
							why = "worker timed out"
						} else if code != 0 {
							why = "worker exited " + strconv.Itoa(code) + " before the case"
							tail := tailFile(logPath, 6000)
							c.Logf("worker job %d exit %d: %s", ji, code, tail)
							mu.Lock()
							if !crashSeen[ji] {
								crashSeen[ji] = true
								if len(crashTails) < 4 {
									crashTails = append(crashTails, fmt.Sprintf("job %d exit %d: %s", ji, code, tail))
								}
								if (strings.Contains(tail, "panic:") || strings.Contains(tail, "fatal error:")) && strings.Contains(tail, anchoredPkg) {
									crashInPkg = append(crashInPkg, tail)
								}
							}
							mu.Unlock()
						}
						c.Inconclusive(why)
					}
				}
				os.Remove(logPath)
			}
		}()
	}
	for ji := range jobs {
		jobCh <- ji
		if ji%20 == 19 {
			c.Logf("dispatched %d/%d worker jobs", ji+1, len(jobs))
		}
	}
	close(jobCh)
	wg.Wait()

	for _, t := range crashInPkg {
		c.Violation("worker:crash-in-rsync", "the worker process died with a panic / fatal error whose stack is inside the anchored package", t)
	}
	if len(crashTails) > 0 {
		c.Extra("worker_failures", crashTails)
	}
	var anchoredRaces, otherRaces, raceBlocks int
	var otherList []string
	for _, p := range racePrefixes {
		reps, blocks := vf.ScanRaceLogs(p, []string{anchoredPkg})
		raceBlocks += blocks
		for _, rp := range reps {
			top := func(st []string) string {
				if len(st) == 0 {
					return "?"
				}
				return st[0]
			}
			if rp.InPkg == 2 {
				anchoredRaces++
				c.Violation("race:rsync:"+rp.Pair, fmt.Sprintf("data race inside package internal/rsync (%d reports): %s <-> %s", rp.Count, top(rp.StackA), top(rp.StackB)), rp)
			} else {
				otherRaces++
				if len(otherList) < 5 {
					otherList = append(otherList, top(rp.StackA)+" <-> "+top(rp.StackB))
				}
			}
		}
	}
	for k, v := range tot {
		c.Count(k, v)
	}
	c.Count("race_report_blocks", int64(raceBlocks))
	c.Count("races_in_rsync_package", int64(anchoredRaces))
	c.Count("races_elsewhere", int64(otherRaces))
	if len(otherList) > 0 {
		c.Extra("races_elsewhere_examples", otherList)
	}
	c.Count("worker_jobs", int64(len(jobs)))
	c.Require(int64(nCases), nCases/2)
}

func first4(x [][4]int64, n int) [][4]int64 {
	if len(x) > n {
		return x[:n]
	}
	return x
}

func first8(x [][8]int64, n int) [][8]int64 {
	if len(x) > n {
		return x[:n]
	}
	return x
}

func tailFile(p string, n int) string {
	b, err := os.ReadFile(p)
	if err != nil {
		return ""
	}
	if len(b) > n {
		b = b[len(b)-n:]
	}
	return string(b)
}
