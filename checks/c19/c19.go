// Package c19: credential decisions follow the documented rule (DESIGN §6 C19).
package c19

import (
	"encoding/json"
	"fmt"
	"runtime"
	"strings"
	"sync"

	"github.com/rqlite/rqlite/v10/auth"
	"verif/internal/vf"
)

func init() { vf.Register("C19", "exploration", run) }

type entry struct {
	user  int // 0 a,1 b,2 *,3 "" explicit,4 omitted
	pass  int // 0 omitted,1 "",2 p,3 q
	perms int // 0 omitted,1 [],2 [execute],3 [query],4 [all],5 [execute,query]
}

var (
	userVals  = []string{"a", "b", "*", "", ""}
	passVals  = []string{"", "", "p", "q"}
	permsVals = [][]string{nil, {}, {"execute"}, {"query"}, {"all"}, {"execute", "query"}}
	qUsers    = []string{"", "a", "b", "*"}
	qPass     = []string{"", "p", "q"}
	qPerms    = []string{"execute", "query", "all"}
)

const nEntries = 5 * 4 * 6

func entryOf(i int) entry { return entry{user: i % 5, pass: (i / 5) % 4, perms: i / 20} }

func (e entry) json() string {
	var parts []string
	if e.user != 4 {
		parts = append(parts, fmt.Sprintf(`"username":%q`, userVals[e.user]))
	}
	if e.pass != 0 {
		parts = append(parts, fmt.Sprintf(`"password":%q`, passVals[e.pass]))
	}
	if e.perms != 0 {
		b, _ := json.Marshal(permsVals[e.perms])
		parts = append(parts, `"perms":`+string(b))
	}
	return "{" + strings.Join(parts, ",") + "}"
}

func fileJSON(es []entry) string {
	var p []string
	for _, e := range es {
		p = append(p, e.json())
	}
	return "[" + strings.Join(p, ",") + "]"
}

type def struct {
	pass  string
	perms map[string]bool
}

// spec computes the documented decision. With inherit=true it instead models
// "fields omitted by an entry are inherited from the previous entry", which is
// used only to classify a mismatch (finding key), never to excuse one.
func specTable(es []entry, inherit bool) map[string]def {
	defs := map[string]def{}
	var prevUser, prevPass string
	var prevPerms []string
	for _, e := range es {
		u, p, pm := "", "", []string(nil)
		if e.user != 4 {
			u = userVals[e.user]
		} else if inherit {
			u = prevUser
		}
		if e.pass != 0 {
			p = passVals[e.pass]
		} else if inherit {
			p = prevPass
		}
		if e.perms != 0 {
			pm = permsVals[e.perms]
		} else if inherit {
			pm = prevPerms
		}
		d := def{pass: p, perms: map[string]bool{}}
		for _, x := range pm {
			d.perms[x] = true
		}
		defs[u] = d
		prevUser, prevPass, prevPerms = u, p, pm
	}
	return defs
}

func specAA(defs map[string]def, user, pass, perm string) bool {
	star, hasStar := defs["*"]
	starOK := hasStar && (star.perms[perm] || star.perms["all"])
	if starOK {
		return true
	}
	if user == "" {
		return false
	}
	d, ok := defs[user]
	if !ok || d.pass != pass {
		return false
	}
	return d.perms[perm] || d.perms["all"]
}

type mismatch struct {
	File  string `json:"file"`
	User  string `json:"user"`
	Pass  string `json:"pass"`
	Perm  string `json:"perm"`
	Got   bool   `json:"got"`
	Want  bool   `json:"want"`
	Class string `json:"class"`
}

func checkFile(es []entry) (nq int, mm *mismatch, loadErr error) {
	txt := fileJSON(es)
	cs := auth.NewCredentialsStore()
	if err := cs.Load(strings.NewReader(txt)); err != nil {
		return 0, nil, err
	}
	spec := specTable(es, false)
	var inh map[string]def
	for _, u := range qUsers {
		for _, p := range qPass {
			for _, pm := range qPerms {
				nq++
				got := cs.AA(u, p, pm)
				want := specAA(spec, u, p, pm)
				if got != want && mm == nil {
					if inh == nil {
						inh = specTable(es, true)
					}
					class := "aa:mismatch"
					if specAA(inh, u, p, pm) == got {
						class = "load:field-inheritance"
					}
					mm = &mismatch{File: txt, User: u, Pass: p, Perm: pm, Got: got, Want: want, Class: class}
				}
			}
		}
	}
	return nq, mm, nil
}

func run(c *vf.Ctx) {
	c.Rule("credential files = sequences of <=3 entries over username{a,b,*,\"\",omitted} x password{omitted,\"\",p,q} x perms{omitted,[],[execute],[query],[all],[execute,query]} loaded via CredentialsStore.Load from JSON text; every file is queried with 4 users x 3 passwords x 3 perms against a spec function written from the property text. quick: all files of length <=2 plus a seeded sample of length 3; thorough: all files of length <=3. non-trivial = file with >=2 entries, or 1 entry granting something; distinct by file text")
	c.Assume("the spec function (last definition wins with that entry's own fields; authorized iff '*' grants perm/all, or non-empty user with exactly the stored password holds perm/all directly or via '*') is the documented rule")
	c.Assume("universe bound: 3 entries, 4 usernames, 3 passwords, 3 permissions")

	var files [][]entry
	files = append(files, nil) // empty file
	for i := 0; i < nEntries; i++ {
		files = append(files, []entry{entryOf(i)})
	}
	for i := 0; i < nEntries; i++ {
		for j := 0; j < nEntries; j++ {
			files = append(files, []entry{entryOf(i), entryOf(j)})
		}
	}
	exhaustive := !c.Quick()
	if c.Quick() {
		r := c.Rand(1)
		for n := 0; n < 30000; n++ {
			files = append(files, []entry{entryOf(r.IntN(nEntries)), entryOf(r.IntN(nEntries)), entryOf(r.IntN(nEntries))})
		}
	}
	work := make(chan []entry, 1024)
	var wg sync.WaitGroup
	var mu sync.Mutex
	var queries int64
	process := func(es []entry) {
		nq, mm, err := checkFile(es)
		c.Eval(1)
		mu.Lock()
		queries += int64(nq)
		mu.Unlock()
		if err != nil {
			c.Violation("load:error", fmt.Sprintf("well-formed credentials file rejected: %v", err), fileJSON(es))
			return
		}
		if len(es) >= 2 || (len(es) == 1 && es[0].perms >= 2) {
			c.Nontrivial(fileJSON(es))
		}
		if mm != nil {
			c.Violation(mm.Class, fmt.Sprintf("AA(%q,%q,%q)=%v, spec says %v for file %s", mm.User, mm.Pass, mm.Perm, mm.Got, mm.Want, mm.File), mm)
		} else {
			c.Held(1)
		}
	}
	for w := 0; w < runtime.NumCPU(); w++ {
		wg.Add(1)
		go func() {
			defer wg.Done()
			for es := range work {
				process(es)
			}
		}()
	}
	for _, f := range files {
		work <- f
	}
	if exhaustive {
		for i := 0; i < nEntries; i++ {
			for j := 0; j < nEntries; j++ {
				for k := 0; k < nEntries; k++ {
					work <- []entry{entryOf(i), entryOf(j), entryOf(k)}
				}
			}
		}
	}
	close(work)
	wg.Wait()
	c.Exhaustive(exhaustive)
	c.Count("aa_queries", queries)
	c.Sample(map[string]any{"file": fileJSON([]entry{entryOf(47), entryOf(4), entryOf(82)}), "queries": "4 users x 3 passwords x 3 perms"})
	c.Sample(map[string]any{"file": fileJSON([]entry{entryOf(2 + 5*2 + 20*4), entryOf(0)})})
	c.Require(10000, 1000)
}
