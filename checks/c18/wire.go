package c18

import (
	"bufio"
	"bytes"
	"compress/gzip"
	"encoding/base64"
	"encoding/binary"
	"fmt"
	"io"
	"net"
	"net/http"
	"strings"
	"time"

	clproto "github.com/rqlite/rqlite/v10/cluster/proto"
	pb "google.golang.org/protobuf/proto"
)

// ---- raw HTTP client: one TCP connection per request, no redirect following,
// everything the server sends until it closes the connection is captured ----

type rawHTTP struct {
	Raw      []byte // every byte received
	Status   int    // 0 if the status line could not be parsed
	Header   http.Header
	Body     []byte // transfer-decoded body (as far as it could be decoded)
	TimedOut bool
	Err      string
}

func doRawHTTP(addr, method, path, contentType string, body []byte, user, pass string, withAuth bool, timeout time.Duration) rawHTTP {
	var out rawHTTP
	conn, err := net.DialTimeout("tcp", addr, 10*time.Second)
	if err != nil {
		out.Err = "dial: " + err.Error()
		out.TimedOut = true
		return out
	}
	defer conn.Close()
	conn.SetDeadline(time.Now().Add(timeout))
	var req bytes.Buffer
	fmt.Fprintf(&req, "%s %s HTTP/1.1\r\nHost: %s\r\nConnection: close\r\nUser-Agent: verif-c18\r\n", method, path, addr)
	if withAuth {
		fmt.Fprintf(&req, "Authorization: Basic %s\r\n", base64.StdEncoding.EncodeToString([]byte(user+":"+pass)))
	}
	if contentType != "" {
		fmt.Fprintf(&req, "Content-Type: %s\r\n", contentType)
	}
	if body != nil || method == "POST" || method == "DELETE" || method == "PUT" {
		fmt.Fprintf(&req, "Content-Length: %d\r\n", len(body))
	}
	req.WriteString("\r\n")
	req.Write(body)
	if _, err := conn.Write(req.Bytes()); err != nil {
		// The server may answer (401) and close before the whole body was
		// written; keep reading whatever it sent.
		out.Err = "write: " + err.Error()
	}
	raw, rerr := io.ReadAll(conn)
	out.Raw = raw
	if rerr != nil {
		if ne, ok := rerr.(net.Error); ok && ne.Timeout() {
			out.TimedOut = true
		}
		if out.Err == "" {
			out.Err = "read: " + rerr.Error()
		}
	}
	resp, perr := http.ReadResponse(bufio.NewReader(bytes.NewReader(raw)), &http.Request{Method: method})
	if perr != nil {
		if out.Err == "" {
			out.Err = "parse: " + perr.Error()
		}
		return out
	}
	out.Status = resp.StatusCode
	out.Header = resp.Header
	b, _ := io.ReadAll(resp.Body)
	resp.Body.Close()
	out.Body = b
	return out
}

// ---- raw inter-node client: mux header byte, one length-prefixed protobuf
// Command exactly as cluster/client.go writes it, then the write side is closed
// so that the service, after handling the command, reads EOF and closes: all it
// sent for this command is captured without any idle-time guess ----

type rawNode struct {
	Raw      []byte
	First    []byte // payload of the first length-prefixed frame (nil if none)
	Trailing []byte // everything after the first frame
	TimedOut bool
	Err      string
}

func doRawCommand(raftAddr string, cmd *clproto.Command, timeout time.Duration) rawNode {
	var out rawNode
	p, err := pb.Marshal(cmd)
	if err != nil {
		out.Err = "marshal: " + err.Error()
		out.TimedOut = true
		return out
	}
	conn, err := net.DialTimeout("tcp", raftAddr, 10*time.Second)
	if err != nil {
		out.Err = "dial: " + err.Error()
		out.TimedOut = true
		return out
	}
	defer conn.Close()
	conn.SetDeadline(time.Now().Add(timeout))
	frame := make([]byte, 0, 9+len(p))
	frame = append(frame, 2) // cluster.MuxClusterHeader
	var l [8]byte
	binary.LittleEndian.PutUint64(l[:], uint64(len(p)))
	frame = append(frame, l[:]...)
	frame = append(frame, p...)
	if _, err := conn.Write(frame); err != nil {
		out.Err = "write: " + err.Error()
	}
	if tc, ok := conn.(*net.TCPConn); ok {
		tc.CloseWrite()
	}
	raw, rerr := io.ReadAll(conn)
	out.Raw = raw
	if rerr != nil {
		if ne, ok := rerr.(net.Error); ok && ne.Timeout() {
			out.TimedOut = true
		}
		if out.Err == "" {
			out.Err = "read: " + rerr.Error()
		}
	}
	if len(raw) >= 8 {
		sz := binary.LittleEndian.Uint64(raw[:8])
		if sz <= uint64(len(raw)-8) {
			out.First = raw[8 : 8+sz]
			out.Trailing = raw[8+sz:]
		} else {
			out.Trailing = raw[8:]
		}
	}
	return out
}

// ---- content scanning ----

const sqliteMagic = "SQLite format 3"

// scanResult says what protected content a byte string contains, directly or
// inside any gzip member found at any offset.
type scanResult struct {
	Hits      []string // e.g. "canary:db", "sqlite-header", "gzip@123>canary:db"
	GzMembers int
}

func scanBytes(data []byte, canaries map[string]string) scanResult {
	var r scanResult
	direct := func(b []byte, prefix string) {
		for name, c := range canaries {
			if bytes.Contains(b, []byte(c)) {
				r.Hits = append(r.Hits, prefix+"canary:"+name)
			}
		}
		if bytes.Contains(b, []byte(sqliteMagic)) {
			r.Hits = append(r.Hits, prefix+"sqlite-header")
		}
	}
	direct(data, "")
	magic := []byte{0x1f, 0x8b, 0x08}
	off := 0
	tried := 0
	for tried < 64 {
		i := bytes.Index(data[off:], magic)
		if i < 0 {
			break
		}
		pos := off + i
		off = pos + 1
		tried++
		zr, err := gzip.NewReader(bytes.NewReader(data[pos:]))
		if err != nil {
			continue
		}
		zr.Multistream(false)
		inflated, _ := io.ReadAll(io.LimitReader(zr, 256<<20))
		if len(inflated) == 0 {
			continue
		}
		r.GzMembers++
		direct(inflated, fmt.Sprintf("gzip@%d>", pos))
		// one level of nesting (a gzip'd protobuf that carries a gzip'd file)
		if j := bytes.Index(inflated, magic); j >= 0 {
			if zr2, err := gzip.NewReader(bytes.NewReader(inflated[j:])); err == nil {
				zr2.Multistream(false)
				inner, _ := io.ReadAll(io.LimitReader(zr2, 256<<20))
				direct(inner, fmt.Sprintf("gzip@%d>gzip@%d>", pos, j))
			}
		}
	}
	return r
}

// saysUnauthorized reports whether an inter-node response frame (possibly
// gzip-compressed, as for COMMAND_TYPE_BACKUP) carries the refusal text.
func saysUnauthorized(frame []byte) bool {
	if bytes.Contains(frame, []byte("unauthorized")) {
		return true
	}
	if len(frame) > 3 && frame[0] == 0x1f && frame[1] == 0x8b {
		if zr, err := gzip.NewReader(bytes.NewReader(frame)); err == nil {
			b, _ := io.ReadAll(io.LimitReader(zr, 256<<20))
			return bytes.Contains(b, []byte("unauthorized"))
		}
	}
	return false
}

func clip(b []byte, n int) string {
	s := string(b)
	if len(s) > n {
		s = s[:n] + "…"
	}
	return strings.ToValidUTF8(s, "?")
}
