package c06

// Worker side: runs one schedule against a real rqlite SwappableDB (and its
// CheckpointManager) with harness-owned reader connections, and decides with a
// shadow database maintained by plain SQLite.

import (
	"bytes"
	"context"
	"database/sql"
	"encoding/binary"
	"encoding/hex"
	"encoding/json"
	"errors"
	"fmt"
	"math/rand/v2"
	"os"
	"path/filepath"
	"strings"
	"time"

	command "github.com/rqlite/rqlite/v10/command/proto"
	rdb "github.com/rqlite/rqlite/v10/db"
	"github.com/rqlite/rqlite/v10/vexport"
	"verif/internal/sqlref"
	"verif/internal/vf"
)

type step struct {
	Op string `json:"op"`           // W write txn | RS reader start | RE reader stop | C incremental attempt | F full (nil writer) attempt | V vacuum
	R  int    `json:"r,omitempty"`  // reader index
	N  int    `json:"n,omitempty"`  // rows touched by a write
	K  int    `json:"k,omitempty"`  // write kind: 0 insert, 1 update, 2 delete
	HC string `json:"hc,omitempty"` // action at ckpt.after_compact: "start"/"stop" reader HCR
	HR int    `json:"hr,omitempty"`
	HS string `json:"hs,omitempty"` // action at ckpt.after_sqlite
	SR int    `json:"sr,omitempty"`
}

type schedule struct {
	No    int    `json:"no"`
	Kind  string `json:"kind"`
	Seed  uint64 `json:"seed"`
	Steps []step `json:"steps"`
}

type viol struct {
	Key  string `json:"key"`
	What string `json:"what"`
}

type result struct {
	HarnessErr string           `json:"harness_err,omitempty"`
	Viol       []viol           `json:"viol,omitempty"`
	Outcomes   []string         `json:"outcomes"`
	Counts     map[string]int64 `json:"counts"`
}

func init() {
	vf.RegisterWorker("c06", func(args []string) {
		vf.ServeJSON(func(req json.RawMessage) any {
			var s schedule
			if err := json.Unmarshal(req, &s); err != nil {
				return &result{HarnessErr: "bad request: " + err.Error()}
			}
			return runSchedule(&s)
		})
	})
}

type reader struct {
	db   *sql.DB
	conn *sql.Conn
}

func startReader(path string) (*reader, error) {
	db, err := sqlref.Open(path)
	if err != nil {
		return nil, err
	}
	ctx := context.Background()
	conn, err := db.Conn(ctx)
	if err != nil {
		db.Close()
		return nil, err
	}
	if _, err := conn.ExecContext(ctx, "BEGIN"); err != nil {
		conn.Close()
		db.Close()
		return nil, err
	}
	var n int
	if err := conn.QueryRowContext(ctx, "SELECT count(*) FROM t").Scan(&n); err != nil {
		conn.Close()
		db.Close()
		return nil, err
	}
	return &reader{db: db, conn: conn}, nil
}

func (r *reader) stop() {
	r.conn.ExecContext(context.Background(), "ROLLBACK")
	r.conn.Close()
	r.db.Close()
}

type walHead struct {
	ok    bool
	salt  [8]byte
	size  int64
	pgsz  int
	frame int64 // complete frame slots in the file
}

func readWALHead(path string) walHead {
	f, err := os.Open(path)
	if err != nil {
		return walHead{}
	}
	defer f.Close()
	st, _ := f.Stat()
	var h [32]byte
	if _, err := f.ReadAt(h[:], 0); err != nil {
		return walHead{size: st.Size()}
	}
	w := walHead{ok: true, size: st.Size(), pgsz: int(binary.BigEndian.Uint32(h[8:]))}
	copy(w.salt[:], h[16:24])
	if w.pgsz > 0 {
		w.frame = (st.Size() - 32) / int64(24+w.pgsz)
	}
	return w
}

type runner struct {
	s       *schedule
	res     *result
	dir     string
	path    string
	shadow  string
	sdb     *rdb.SwappableDB
	readers [3]*reader
	// harness model of what the manager must remember
	armed      bool
	armedSalt  [8]byte
	armedFrame int64
	sawBlocked bool
	needFull   bool // a nil-writer (full snapshot) checkpoint failed and has not succeeded since
}

func (r *runner) count(k string, n int64) { r.res.Counts[k] += n }

func (r *runner) violate(key, what string) {
	r.res.Viol = append(r.res.Viol, viol{key, what})
}

func (r *runner) exec(stmts ...string) error {
	req := &command.Request{Transaction: true}
	for _, q := range stmts {
		req.Statements = append(req.Statements, &command.Statement{Sql: q})
	}
	resp, err := r.sdb.Execute(req, false)
	if err != nil {
		return err
	}
	for _, x := range resp {
		if e := x.GetError(); e != "" {
			return errors.New(e)
		}
		if x.GetE() != nil && x.GetE().GetError() != "" {
			return errors.New(x.GetE().GetError())
		}
	}
	return nil
}

func hexBlob(rg *rand.Rand, n int) string {
	b := make([]byte, n)
	for i := range b {
		b[i] = byte(rg.UintN(256))
	}
	return "x'" + hex.EncodeToString(b) + "'"
}

func (r *runner) write(rg *rand.Rand, st step) error {
	switch st.K {
	case 1:
		m := 2 + rg.IntN(5)
		return r.exec(fmt.Sprintf("UPDATE t SET k=k+1, v=%s WHERE id%%%d=%d AND id IN (SELECT id FROM t WHERE id%%%d=%d LIMIT %d)", hexBlob(rg, 100+rg.IntN(1500)), m, rg.IntN(m), m, rg.IntN(m), st.N))
	case 2:
		m := 2 + rg.IntN(4)
		return r.exec(fmt.Sprintf("DELETE FROM t WHERE id IN (SELECT id FROM t WHERE id%%%d=%d LIMIT %d)", m, rg.IntN(m), st.N),
			"UPDATE t SET k=k+1 WHERE id=(SELECT min(id) FROM t)")
	default:
		var qs []string
		for i := 0; i < st.N; i++ {
			qs = append(qs, fmt.Sprintf("INSERT INTO t(k,v) VALUES(%d,%s)", rg.IntN(1000), hexBlob(rg, 200+rg.IntN(1800))))
		}
		return r.exec(qs...)
	}
}

func (r *runner) readerAct(what string, i int) {
	switch what {
	case "start":
		if r.readers[i] == nil {
			rd, err := startReader(r.path)
			if err != nil {
				r.res.HarnessErr = "reader start: " + err.Error()
				return
			}
			r.readers[i] = rd
			r.count("reader_starts", 1)
		}
	case "stop":
		if r.readers[i] != nil {
			r.readers[i].stop()
			r.readers[i] = nil
			r.count("reader_stops", 1)
		}
	}
}

// applySegment applies a captured segment to the shadow with plain SQLite.
func (r *runner) applySegment(seg []byte) error {
	os.Remove(r.shadow + "-shm")
	if err := os.WriteFile(r.shadow+"-wal", seg, 0644); err != nil {
		return err
	}
	db, err := sqlref.Open(r.shadow)
	if err != nil {
		return err
	}
	defer db.Close()
	var busy, a, b int
	if err := db.QueryRow("PRAGMA wal_checkpoint(TRUNCATE)").Scan(&busy, &a, &b); err != nil {
		return err
	}
	if busy != 0 {
		return fmt.Errorf("shadow checkpoint busy")
	}
	return nil
}

// recaptured counts frames of seg whose (page, content) occurs in the WAL
// before frame k but not at or after it.
func recaptured(seg, walb []byte, k int) int {
	if len(seg) < 32 || len(walb) < 32 {
		return 0
	}
	ps := int(binary.BigEndian.Uint32(walb[8:]))
	if ps == 0 {
		return 0
	}
	fsz := 24 + ps
	key := func(b []byte, i int) string {
		o := 32 + i*fsz
		return string(b[o:o+4]) + string(b[o+24:o+fsz])
	}
	before, after := map[string]bool{}, map[string]bool{}
	for i := 0; 32+(i+1)*fsz <= len(walb); i++ {
		if i < k {
			before[key(walb, i)] = true
		} else {
			after[key(walb, i)] = true
		}
	}
	n := 0
	for i := 0; 32+(i+1)*fsz <= len(seg); i++ {
		kk := key(seg, i)
		if before[kk] && !after[kk] {
			n++
		}
	}
	return n
}

func segFrames(seg []byte) int {
	if len(seg) < 32 {
		return 0
	}
	ps := int(binary.BigEndian.Uint32(seg[8:]))
	if ps == 0 {
		return 0
	}
	return (len(seg) - 32) / (24 + ps)
}

func (r *runner) compare(stepNo int, what string) {
	live, err1 := os.ReadFile(r.path)
	sh, err2 := os.ReadFile(r.shadow)
	if err1 != nil || err2 != nil {
		r.res.HarnessErr = fmt.Sprintf("read files: %v %v", err1, err2)
		return
	}
	r.count("compares", 1)
	dl, e1 := sqlref.DumpFile(r.path)
	ds, e2 := sqlref.DumpFile(r.shadow)
	if e1 != nil || e2 != nil {
		r.violate("rebuild:unreadable", fmt.Sprintf("step %d (%s): dump live err=%v, dump rebuilt err=%v", stepNo, what, e1, e2))
		return
	}
	if dl.Hash() != ds.Hash() {
		r.violate("rebuild:logical-mismatch", fmt.Sprintf("step %d (%s): previous snapshot + captured segments differs from the live database (%d vs %d rows):\n%s", stepNo, what, ds.Rows(), dl.Rows(), sqlref.Diff(dl, ds)))
		return
	}
	r.count("logical_equal", 1)
	if !bytes.Equal(live, sh) {
		n, first := 0, -1
		ps := 4096
		for p := 0; p*ps < len(live) && p*ps < len(sh); p++ {
			e := min((p+1)*ps, len(live), len(sh))
			if !bytes.Equal(live[p*ps:e], sh[p*ps:e]) {
				n++
				if first < 0 {
					first = p + 1
				}
			}
		}
		r.violate("rebuild:byte-mismatch", fmt.Sprintf("step %d (%s): rebuilt database file differs from the live database file although logical dumps agree: live %d bytes, rebuilt %d bytes, %d pages differ (first %d)", stepNo, what, len(live), len(sh), n, first))
		return
	}
	r.count("byte_equal", 1)
}

// attempt performs one checkpoint attempt. full=true uses the nil-writer path
// (what a full snapshot does).
func (r *runner) attempt(stepNo int, st step, timeout time.Duration) string {
	pre := readWALHead(r.path + "-wal")
	armedFrameAtEntry := r.armedFrame
	var preWAL []byte
	if r.armed && pre.ok && pre.salt == r.armedSalt {
		preWAL, _ = os.ReadFile(r.path + "-wal")
	}
	hitsC, hitsS := vexport.HookHits("ckpt.after_compact"), vexport.HookHits("ckpt.after_sqlite")
	if st.HC != "" {
		vexport.HookOn("ckpt.after_compact", func() { r.readerAct(st.HC, st.HR) })
	} else {
		vexport.HookOn("ckpt.after_compact", func() {})
	}
	if st.HS != "" {
		vexport.HookOn("ckpt.after_sqlite", func() { r.readerAct(st.HS, st.SR) })
	} else {
		vexport.HookOn("ckpt.after_sqlite", func() {})
	}
	var buf bytes.Buffer
	var meta *rdb.CheckpointManagerMeta
	var err error
	if st.Op == "F" {
		meta, _, err = r.sdb.Checkpoint(nil, timeout)
	} else {
		meta, _, err = r.sdb.Checkpoint(&buf, timeout)
	}
	vexport.HookOn("ckpt.after_compact", nil)
	vexport.HookOn("ckpt.after_sqlite", nil)
	r.count("hook_after_compact_hits", vexport.HookHits("ckpt.after_compact")-hitsC)
	r.count("hook_after_sqlite_hits", vexport.HookHits("ckpt.after_sqlite")-hitsS)
	r.count("attempts", 1)
	if os.Getenv("C06_DEBUG") != "" {
		post := readWALHead(r.path + "-wal")
		fmt.Fprintf(os.Stderr, "step %d %s: pre salt=%x frames=%d size=%d armed=%v | meta=%v err=%v seg=%d bytes (%d frames) | post salt=%x frames=%d size=%d\n",
			stepNo, st.Op, pre.salt, pre.frame, pre.size, r.armed, meta, err, buf.Len(), segFrames(buf.Bytes()), post.salt, post.frame, post.size)
	}

	// reset detection (only meaningful while the manager must be watching)
	expectReset := r.armed && pre.ok && pre.salt != r.armedSalt
	appended := r.armed && pre.ok && pre.salt == r.armedSalt
	if st.Op != "F" && pre.size > 0 {
		if expectReset {
			r.count("wal_resets_between_attempts", 1)
			if meta != nil && !meta.WALReset {
				r.violate("reset:undetected", fmt.Sprintf("step %d: the WAL salt changed (%x -> %x) since the attempt that moved all pages without truncating, but the manager reports WALReset=false", stepNo, r.armedSalt, pre.salt))
			} else if meta != nil {
				r.count("wal_resets_detected", 1)
			}
		} else if appended {
			if pre.frame > r.armedFrame {
				r.count("wal_appends_between_attempts", 1)
			}
			if meta != nil && meta.WALReset {
				r.count("reset_reported_without_salt_change", 1)
			}
		}
	}
	if expectReset {
		r.armed = false
	}

	if st.Op == "F" {
		if err != nil {
			r.count("full_failed", 1)
			r.sawBlocked = true
			r.needFull = true
			return "F:failed"
		}
		r.needFull = false
		if pre.size == 0 {
			r.armed = false
			return "F:empty"
		}
		// a successful nil-writer checkpoint is the basis of a full snapshot:
		// the database file alone must be the live database
		r.armed = false
		r.count("full_ok", 1)
		if post := readWALHead(r.path + "-wal"); post.size != 0 {
			r.violate("full:wal-not-truncated", fmt.Sprintf("step %d: nil-writer checkpoint reported success but the WAL still has %d bytes", stepNo, post.size))
		}
		if err := sqlref.CopyFile(r.path, r.shadow); err != nil {
			r.res.HarnessErr = err.Error()
		}
		r.compare(stepNo, "full")
		return "F:ok"
	}

	if err != nil {
		// failed attempt: the segment is discarded (the store cancels its
		// staging writer on any error)
		var re rdb.RetryableError
		if errors.As(err, &re) && re.Retryable() {
			r.count("busy", 1)
			r.sawBlocked = true
			if meta != nil && meta.Moved > 0 {
				r.count("busy_partially_moved", 1)
			}
			return "C:busy"
		}
		r.count("failed_other", 1)
		r.violate("attempt:unexpected-error", fmt.Sprintf("step %d: checkpoint attempt failed with a non-busy error: %v", stepNo, err))
		return "C:error"
	}
	// successful attempt: keep the segment
	seg := buf.Bytes()
	out := "C:truncated"
	switch {
	case pre.size == 0:
		out = "C:empty"
		r.armed = false
		if len(seg) != 0 {
			r.violate("segment:from-empty-wal", fmt.Sprintf("step %d: WAL file was empty but %d bytes were captured", stepNo, len(seg)))
		}
	case meta == nil:
		r.violate("attempt:nil-meta", fmt.Sprintf("step %d: nil meta with nil error", stepNo))
		return "C:error"
	case meta.Code != 0:
		out = "C:partial"
		r.sawBlocked = true
		r.armed = true
		r.armedSalt = pre.salt
		r.armedFrame = int64(meta.Moved)
		r.count("partial_all_moved", 1)
	default:
		r.armed = false
		r.count("truncated", 1)
	}
	if len(seg) > 0 {
		nf := segFrames(seg)
		r.count("segments", 1)
		r.count("segment_frames", int64(nf))
		if nf == 0 {
			r.count("segments_header_only", 1)
		}
		if appended {
			r.count("segments_after_append", 1)
			// Informational only (re-capturing frames is wasteful, not wrong):
			// does the segment repeat a frame that lies before the resume
			// index and that the appended range does not contain?
			if n := recaptured(seg, preWAL, int(armedFrameAtEntry)); n > 0 {
				r.count("segments_recapturing_frames_before_resume", 1)
				r.count("frames_recaptured_before_resume", int64(n))
			}
		}
		if err := r.applySegment(seg); err != nil {
			r.violate("segment:rejected-by-sqlite", fmt.Sprintf("step %d: SQLite could not checkpoint the captured segment onto the previous snapshot: %v", stepNo, err))
			return out
		}
	}
	r.compare(stepNo, out)
	return out
}

func runSchedule(s *schedule) (res *result) {
	res = &result{Counts: map[string]int64{}}
	defer func() {
		if p := recover(); p != nil {
			res.Viol = append(res.Viol, viol{"panic", fmt.Sprint(p)})
		}
	}()
	dir := vf.TempDir("c06w")
	defer os.RemoveAll(dir)
	r := &runner{s: s, res: res, dir: dir, path: filepath.Join(dir, "live.db"), shadow: filepath.Join(dir, "shadow.db")}
	sdb, err := rdb.OpenSwappable(r.path, nil, false, true, 4)
	if err != nil {
		res.HarnessErr = "open: " + err.Error()
		return
	}
	r.sdb = sdb
	defer func() {
		for i := range r.readers {
			if r.readers[i] != nil {
				r.readers[i].stop()
			}
		}
		sdb.Close()
	}()
	rg0 := rand.New(rand.NewPCG(s.Seed, 0))
	if err := r.exec("CREATE TABLE t(id INTEGER PRIMARY KEY, k INT, v BLOB)", "CREATE INDEX tk ON t(k)"); err != nil {
		res.HarnessErr = "schema: " + err.Error()
		return
	}
	if err := r.write(rg0, step{Op: "W", N: 5 + rg0.IntN(40)}); err != nil {
		res.HarnessErr = "seed rows: " + err.Error()
		return
	}
	if _, _, err := sdb.Checkpoint(nil, 5*time.Second); err != nil {
		res.HarnessErr = "initial checkpoint: " + err.Error()
		return
	}
	if err := sqlref.CopyFile(r.path, r.shadow); err != nil {
		res.HarnessErr = err.Error()
		return
	}
	for i, st := range s.Steps {
		if res.HarnessErr != "" || len(res.Viol) > 0 {
			break
		}
		rg := rand.New(rand.NewPCG(s.Seed, uint64(i+1)))
		var out string
		switch st.Op {
		case "W":
			if err := r.write(rg, st); err != nil {
				res.HarnessErr = fmt.Sprintf("write step %d: %v", i, err)
			}
			r.count("writes", 1)
			out = "W"
		case "V":
			if err := sdb.Vacuum(); err != nil {
				out = "V:err"
				r.count("vacuum_errors", 1)
			} else {
				out = "V"
				r.count("vacuums", 1)
			}
		case "RS":
			r.readerAct("start", st.R)
			out = "RS"
		case "RE":
			r.readerAct("stop", st.R)
			out = "RE"
		case "C", "F":
			if r.needFull {
				// a store keeps a full snapshot due until one succeeds: it never
				// follows a failed nil-writer checkpoint with an incremental one
				st.Op = "F"
			}
			out = r.attempt(i, st, 25*time.Millisecond)
		default:
			res.HarnessErr = "unknown op " + st.Op
		}
		res.Outcomes = append(res.Outcomes, out)
	}
	if res.HarnessErr != "" || len(res.Viol) > 0 {
		return
	}
	// closing attempt: no readers left, so it must go through and the rebuilt
	// database must equal the live one
	for i := range r.readers {
		r.readerAct("stop", i)
	}
	fin := step{Op: "C"}
	if r.needFull {
		fin.Op = "F"
	}
	out := r.attempt(len(s.Steps), fin, 5*time.Second)
	res.Outcomes = append(res.Outcomes, "final:"+strings.TrimPrefix(strings.TrimPrefix(out, "C:"), "F:"))
	if out != "C:truncated" && out != "C:empty" && out != "F:ok" && out != "F:empty" && len(res.Viol) == 0 && res.HarnessErr == "" {
		res.HarnessErr = fmt.Sprintf("closing attempt without any reader ended as %s", out)
	}
	return
}
