// Package c05: WAL compaction is equivalent to the original WAL (DESIGN §6 C05).
//
// Reference path (no rqlite code): base database + original WAL, checkpointed
// by SQLite itself. Candidate path: base database + the original WAL cut at the
// resume frame checkpointed by SQLite, then rqlite's compacted output for that
// resume frame placed as the -wal file and checkpointed by SQLite. The database
// bytes must be identical.
package c05

import (
	"bytes"
	"context"
	"crypto/sha256"
	"encoding/hex"
	"fmt"
	"os"
	"path/filepath"
	"runtime"
	"sync"
	"sync/atomic"
	"time"

	"github.com/rqlite/rqlite/v10/db/wal"
	"verif/internal/sqlref"
	"verif/internal/vf"
)

func init() { vf.Register("C05", "exploration", run) }

// sqliteApply writes (base, walImage) as a database and its -wal, lets SQLite
// recover and checkpoint it, and returns the resulting database bytes and the
// number of WAL frames SQLite considered committed (mxFrame).
func sqliteApply(dir string, base, walImage []byte) (out []byte, mxFrame int, err error) {
	path := filepath.Join(dir, "a.db")
	os.Remove(path + "-shm")
	os.Remove(path + "-wal")
	if err := os.WriteFile(path, base, 0644); err != nil {
		return nil, 0, err
	}
	if walImage != nil {
		if err := os.WriteFile(path+"-wal", walImage, 0644); err != nil {
			return nil, 0, err
		}
	}
	db, err := sqlref.Open(path)
	if err != nil {
		return nil, 0, err
	}
	ctx := context.Background()
	conn, err := db.Conn(ctx)
	if err != nil {
		db.Close()
		return nil, 0, err
	}
	var busy, nlog, nck int
	// synchronous=OFF only removes fsyncs; the bytes written are the same
	conn.ExecContext(ctx, "PRAGMA synchronous=OFF")
	err = conn.QueryRowContext(ctx, "PRAGMA wal_checkpoint(FULL)").Scan(&busy, &nlog, &nck)
	if err == nil && (busy != 0 || nlog != nck) {
		err = fmt.Errorf("FULL checkpoint incomplete: busy=%d log=%d ckpt=%d", busy, nlog, nck)
	}
	if err == nil {
		var b2, x, y int
		err = conn.QueryRowContext(ctx, "PRAGMA wal_checkpoint(TRUNCATE)").Scan(&b2, &x, &y)
		if err == nil && b2 != 0 {
			err = fmt.Errorf("TRUNCATE checkpoint busy")
		}
	}
	conn.Close()
	if cerr := db.Close(); err == nil && cerr != nil {
		err = cerr
	}
	if err != nil {
		return nil, 0, err
	}
	if nlog < 0 {
		nlog = 0
	}
	out, err = os.ReadFile(path)
	return out, nlog, err
}

// compact is the candidate: rqlite's scanner + writer.
func compact(walImage []byte, start int64, full bool) (out []byte, err error, panicked any) {
	defer func() {
		if r := recover(); r != nil {
			panicked = r
		}
	}()
	sc, err := wal.NewCompactingFrameScanner(bytes.NewReader(walImage), start, full)
	if err != nil {
		return nil, err, nil
	}
	w, err := wal.NewWriter(sc)
	if err != nil {
		return nil, err, nil
	}
	var buf bytes.Buffer
	if _, err := w.WriteTo(&buf); err != nil {
		return nil, err, nil
	}
	return buf.Bytes(), nil, nil
}

func sha(b []byte) string {
	h := sha256.Sum256(b)
	return hex.EncodeToString(h[:6])
}

type walCase struct {
	Kind  string // sqlite | synthetic
	ID    string
	Desc  any
	Base  []byte
	WAL   []byte
	Trust bool // true when produced by real SQLite
	No    int
}

type replay struct {
	Kind      string `json:"kind"`
	Case      any    `json:"case"`
	Start     int    `json:"start_frame"`
	FullScan  bool   `json:"full_scan"`
	ValidN    int    `json:"valid_frames"`
	Committed int    `json:"committed_frames"`
	SameSalt  int    `json:"same_salt_frames_after_valid_prefix"`
	OtherSalt int    `json:"other_salt_frames_after_valid_prefix"`
	Detail    string `json:"detail"`
	BaseFile  string `json:"base_file,omitempty"`
	WALFile   string `json:"wal_file,omitempty"`
}

type driver struct {
	maxOffsets int
	c          *vf.Ctx
	tmp        string
	saved      int32
	sampled    int32
}

func (d *driver) saveInputs(wc *walCase, rp *replay) {
	if atomic.AddInt32(&d.saved, 1) > 4 {
		return
	}
	dir := filepath.Join(vf.Out, "replays")
	os.MkdirAll(dir, 0755)
	b := filepath.Join(dir, fmt.Sprintf("C05-%d-%s.db", d.c.Seed, wc.ID))
	if len(wc.Base)+len(wc.WAL) < 8<<20 {
		os.WriteFile(b, wc.Base, 0644)
		os.WriteFile(b+"-wal", wc.WAL, 0644)
		rp.BaseFile, rp.WALFile = b, b+"-wal"
	}
}

func firstDiffPage(a, b []byte, ps int) string {
	if len(a) != len(b) {
		return fmt.Sprintf("sizes differ: reference %d bytes (%d pages), candidate %d bytes (%d pages)", len(a), len(a)/ps, len(b), len(b)/ps)
	}
	n := 0
	first := -1
	for p := 0; p*ps < len(a); p++ {
		if !bytes.Equal(a[p*ps:(p+1)*ps], b[p*ps:(p+1)*ps]) {
			if first < 0 {
				first = p + 1
			}
			n++
		}
	}
	return fmt.Sprintf("%d of %d pages differ, first page %d", n, len(a)/ps, first)
}

func logicalDiff(dir string, a, b []byte) string {
	pa, pb := filepath.Join(dir, "la.db"), filepath.Join(dir, "lb.db")
	os.WriteFile(pa, a, 0644)
	os.WriteFile(pb, b, 0644)
	defer os.Remove(pa)
	defer os.Remove(pb)
	da, ea := sqlref.DumpFile(pa)
	db, eb := sqlref.DumpFile(pb)
	if ea != nil || eb != nil {
		return fmt.Sprintf("logical dump: reference err=%v candidate err=%v", ea, eb)
	}
	if da.Hash() == db.Hash() {
		return "logical dumps equal"
	}
	return "logical diff (reference - / candidate +):\n" + sqlref.Diff(da, db)
}

// evalWAL runs every (resume offset, mode) of one WAL.
func (d *driver) evalWAL(dir string, wc *walCase) {
	c := d.c
	p := parseWAL(wc.WAL)
	ref, mxRef, err := sqliteApply(dir, wc.Base, wc.WAL)
	if err != nil {
		c.Inconclusive("reference: SQLite could not checkpoint the original WAL")
		c.Logf("%s: reference failed: %v", wc.ID, err)
		return
	}
	c.Count("reference_checkpoints", 1)
	if mxRef != p.LastCommit {
		// the harness parser and SQLite disagree about the committed prefix:
		// no expectation can be trusted for this WAL
		c.Inconclusive("harness WAL parser disagrees with SQLite about the committed prefix")
		c.Logf("%s: parser says %d committed frames, SQLite recovered %d (%+v)", wc.ID, p.LastCommit, mxRef, wc.Desc)
		return
	}
	c.Count("parser_agrees_with_sqlite", 1)
	V, L := len(p.Frames), p.LastCommit
	unterminated := V > L
	fastTrusted := p.HeaderOK && p.SameSaltBad == 0
	if unterminated {
		c.Count("wals_unterminated_tail", 1)
	}
	if p.OtherSalt > 0 {
		c.Count("wals_stale_other_salt_tail", 1)
	}
	if p.SameSaltBad > 0 {
		c.Count("wals_same_salt_invalid_tail", 1)
	}
	fsz := frameHdrSize + p.PageSize

	baseAt := map[int][]byte{0: wc.Base}
	getBase := func(s int) ([]byte, error) {
		if b, ok := baseAt[s]; ok {
			return b, nil
		}
		b, mx, err := sqliteApply(dir, wc.Base, wc.WAL[:walHdrSize+s*fsz])
		if err != nil {
			if dd := os.Getenv("C05_DUMPDIR"); dd != "" {
				os.WriteFile(filepath.Join(dd, fmt.Sprintf("%s-base.db", wc.ID)), wc.Base, 0644)
				os.WriteFile(filepath.Join(dd, fmt.Sprintf("%s-base.db-wal", wc.ID)), wc.WAL, 0644)
			}
			return nil, err
		}
		if mx != s {
			return nil, fmt.Errorf("prefix of %d frames: SQLite recovered %d", s, mx)
		}
		baseAt[s] = b
		return b, nil
	}

	// (page number, content) of every committed frame -> last frame index
	lastIdx := map[string]int{}
	for i := 0; i < L; i++ {
		lastIdx[fmt.Sprintf("%d/%s", p.Frames[i].Pgno, sha(p.pageData(wc.WAL, i)))] = i
	}

	one := func(start int, full bool) {
		mode := "fast"
		if full {
			mode = "full"
		}
		c.Eval(1)
		c.Count("compactions_"+mode, 1)
		rp := &replay{Kind: wc.Kind, Case: wc.Desc, Start: start, FullScan: full, ValidN: V, Committed: L, SameSalt: p.SameSaltBad, OtherSalt: p.OtherSalt}
		out, cerr, pan := compact(wc.WAL, int64(start), full)
		// non-trivial: compaction has something to decide
		dup := false
		seen := map[uint32]bool{}
		for i := start; i < L && i < V; i++ {
			if seen[p.Frames[i].Pgno] {
				dup = true
			}
			seen[p.Frames[i].Pgno] = true
		}
		if dup || start > 0 || unterminated || p.OtherSalt > 0 || p.SameSaltBad > 0 || p.PartialTail {
			c.Nontrivial(fmt.Sprintf("%s/%s/%d/%s", wc.Kind, wc.ID, start, mode))
		}
		if pan != nil {
			rp.Detail = fmt.Sprint(pan)
			d.saveInputs(wc, rp)
			c.Violation(mode+":panic", fmt.Sprintf("compaction panicked on %s WAL %s start=%d: %v", wc.Kind, wc.ID, start, pan), rp)
			return
		}
		if !p.HeaderOK {
			// not a valid WAL: SQLite ignores it. Either an error or an output
			// that changes nothing is fine; frames must never come out of it.
			if cerr != nil {
				c.Count("bad_header_rejected", 1)
				c.Held(1)
				return
			}
			po := parseWAL(out)
			if len(po.Frames) > 0 || po.TotalSlots > 0 {
				d.saveInputs(wc, rp)
				c.Violation(mode+":frames-from-invalid-header", fmt.Sprintf("WAL with invalid header produced %d frames", po.TotalSlots), rp)
				return
			}
			c.Held(1)
			return
		}
		if unterminated {
			if cerr == nil {
				po := parseWAL(out)
				rp.Detail = fmt.Sprintf("output has %d frames; valid prefix %d frames of which %d committed", po.TotalSlots, V, L)
				d.saveInputs(wc, rp)
				c.Violation(mode+":unterminated-tail-accepted",
					fmt.Sprintf("%s WAL %s: valid prefix has %d frames but the last commit is at %d; compaction from %d returned no error", wc.Kind, wc.ID, V, L, start), rp)
				return
			}
			c.Count("unterminated_reported", 1)
			c.Held(1)
			return
		}
		if cerr != nil {
			rp.Detail = cerr.Error()
			if !full && !fastTrusted {
				// the valid prefix ends at a commit, but frames that carry the
				// current salts (left by an abandoned transaction) follow it
				origin := "synthetic"
				if wc.Trust {
					origin = "sqlite-rollback-after-spill"
				}
				d.saveInputs(wc, rp)
				c.Count("fast_spurious_error_same_salt_tail", 1)
				c.Violation("fast:spurious-error:same-salt-stale-frames:"+origin,
					fmt.Sprintf("%s WAL %s (page size %d): committed prefix of %d frames is followed by %d frames of an abandoned transaction with the same salts; compaction from frame %d without checksum verification fails with %q although SQLite recovers the WAL cleanly", wc.Kind, wc.ID, p.PageSize, L, p.SameSaltBad, start, cerr), rp)
				return
			}
			d.saveInputs(wc, rp)
			c.Violation(mode+":spurious-error", fmt.Sprintf("%s WAL %s: valid prefix %d frames ends at a commit, compaction from %d failed: %v", wc.Kind, wc.ID, V, start, cerr), rp)
			return
		}
		// structural: every output frame must be a committed frame of the
		// original at or after start (nothing from beyond the valid prefix)
		po := parseWAL(out)
		if !po.HeaderOK || len(po.Frames) != po.TotalSlots || po.PartialTail || po.LastCommit != len(po.Frames) {
			rp.Detail = fmt.Sprintf("output: header_ok=%v slots=%d valid=%d committed=%d partial=%v", po.HeaderOK, po.TotalSlots, len(po.Frames), po.LastCommit, po.PartialTail)
			// decided by the byte comparison below; remember for the message
		}
		orig := func(k string) bool { i, ok := lastIdx[k]; return ok && i >= start }
		outPages := map[uint32]int{}
		for i := 0; i < po.TotalSlots; i++ {
			o := walHdrSize + i*(frameHdrSize+po.PageSize)
			if po.PageSize == 0 {
				break
			}
			pg := uint32(out[o])<<24 | uint32(out[o+1])<<16 | uint32(out[o+2])<<8 | uint32(out[o+3])
			outPages[pg]++
			k := fmt.Sprintf("%d/%s", pg, sha(out[o+frameHdrSize:o+frameHdrSize+po.PageSize]))
			if !orig(k) {
				rp.Detail = fmt.Sprintf("output frame %d (page %d) is not a committed frame of the original in [%d,%d)", i, pg, start, L)
				d.saveInputs(wc, rp)
				c.Violation(mode+":foreign-frame", fmt.Sprintf("%s WAL %s start=%d: %s", wc.Kind, wc.ID, start, rp.Detail), rp)
				return
			}
		}
		for _, n := range outPages {
			if n > 1 {
				c.Count("outputs_with_repeated_page", 1)
				break
			}
		}
		c.Count("frames_in", int64(L-start))
		c.Count("frames_out", int64(po.TotalSlots))
		b0, err := getBase(start)
		if err != nil {
			c.Inconclusive("SQLite could not checkpoint the prefix before the resume frame")
			c.Logf("%s start=%d: %v", wc.ID, start, err)
			return
		}
		cand, mxC, err := sqliteApply(dir, b0, out)
		if err != nil {
			rp.Detail += " | SQLite on compacted WAL: " + err.Error()
			d.saveInputs(wc, rp)
			c.Violation(mode+":compacted-wal-rejected-by-sqlite", fmt.Sprintf("%s WAL %s start=%d: SQLite failed to checkpoint the compacted WAL: %v", wc.Kind, wc.ID, start, err), rp)
			return
		}
		c.Count("candidate_checkpoints", 1)
		if !bytes.Equal(cand, ref) {
			rp.Detail += fmt.Sprintf(" | %s | SQLite recovered %d of %d output frames | %s", firstDiffPage(ref, cand, p.PageSize), mxC, po.TotalSlots, logicalDiff(dir, ref, cand))
			d.saveInputs(wc, rp)
			c.Violation(mode+":db-differs",
				fmt.Sprintf("%s WAL %s (page size %d, %d committed frames) start=%d: database after checkpointing the compacted WAL differs from checkpointing the original: %s", wc.Kind, wc.ID, p.PageSize, L, start, rp.Detail), rp)
			return
		}
		if mxC != po.TotalSlots {
			c.Count("compacted_frames_not_all_recovered", 1)
		}
		c.Count("byte_equal", 1)
		c.Held(1)
		if (dup && start > 0 || p.OtherSalt > 0 && dup) && atomic.AddInt32(&d.sampled, 1) <= 5 {
			c.Sample(map[string]any{"kind": wc.Kind, "case": wc.Desc, "start_frame": start, "mode": mode, "frames_in": L - start, "frames_out": po.TotalSlots,
				"stale_other_salt_frames": p.OtherSalt, "db_bytes": len(ref), "db_sha": sha(ref)})
		}
	}

	// full scan at 0 for everything
	one(0, true)
	if !p.HeaderOK {
		one(0, false)
		return
	}
	// fast mode (production mode): SQLite-made WALs always; synthetic ones only
	// when every frame carrying the header's salts is checksum-valid
	if wc.Trust || fastTrusted {
		bs := p.Boundaries
		if lim := d.maxOffsets; len(bs) > lim {
			// very long WALs: first and last few boundaries plus a seeded
			// sample of the rest
			keep := map[int]bool{}
			for i := 0; i < 6; i++ {
				keep[bs[i]] = true
				keep[bs[len(bs)-1-i]] = true
			}
			r := c.Rand(uint64(9_000_000) + uint64(wc.No))
			for len(keep) < lim {
				keep[bs[r.IntN(len(bs))]] = true
			}
			var sel []int
			for _, b := range bs {
				if keep[b] {
					sel = append(sel, b)
				}
			}
			c.Count("boundaries_not_used", int64(len(bs)-len(sel)))
			bs = sel
		}
		for _, s := range bs {
			if sc, ok := wc.Desc.(*synthCase); ok && sc.Sparse && s > 0 {
				// A sparse grow takes the content of an unwritten page from a frame
				// before an earlier shrink. With a resume position behind that frame
				// the page is no longer part of "the committed frames from that
				// position" (the base was truncated when the shrink was
				// checkpointed), so the whole-WAL reference used by this harness is
				// not the expectation the property states. Such WALs are judged from
				// frame 0 only, in both scan modes.
				c.Count("boundaries_not_used_sparse_grow", 1)
				continue
			}
			one(s, false)
		}
	}
}

func run(c *vf.Ctx) {
	c.Rule("a case = (WAL, resume frame at a commit boundary, scan mode). WALs: (a) real SQLite (stock driver) running seeded scripts at page sizes 512..65536 (inserts with overflow, repeated updates of the same pages, deletes, table/index create+drop, VACUUM, auto_vacuum shrink, transactions spilled by a 3-page cache and committed, savepoint rollback after spill, whole-transaction rollback after spill, 0-2 earlier WAL generations leaving old-salt frames behind, optionally captured with an open spilled transaction); (b) synthetic WALs built frame by frame (both checksum byte orders, random pages incl. page 1, grow/shrink commit sizes) with one mutation of {none, stale old-salt tail, same-salt garbage, checksum/data/salt corruption at frame j, truncation in a frame header or page, missing final commit, valid uncommitted tail, broken header}. Every commit boundary is used as resume frame in fast mode; full-scan mode at frame 0. non-trivial = resume>0, or a page written more than once in the compacted range, or frames after the valid prefix, or an unterminated tail; distinct by (WAL id, resume frame, mode)")
	c.Assume("SQLite's own recovery+checkpoint of (base, WAL) is the truth for the resulting database bytes; the harness WAL parser (cross-checked against SQLite's mxFrame for every WAL) decides where commit boundaries are and whether the valid prefix ends inside a transaction")
	c.Assume("synthetic WALs follow SQLite's own discipline that every page added to the database by a transaction is written by that transaction")

	tmp := vf.TempDir("c05")
	defer os.RemoveAll(tmp)
	d := &driver{c: c, tmp: tmp, maxOffsets: c.N(40, 120)}

	nSQL := c.N(150, 1500)
	nSyn := c.N(300, 10000)

	tmpls := map[int][]byte{}
	for _, ps := range []int{512, 1024, 4096, 8192, 65536} {
		t, err := makePage1Template(tmp, ps)
		if err != nil {
			c.Logf("template: %v", err)
			c.Inconclusive("could not create page-1 template")
			return
		}
		tmpls[ps] = t
	}

	type job struct {
		kind string
		no   int
	}
	only := os.Getenv("C05_ONLY") // development aid: "s12" / "y7" runs a single WAL
	jobs := make(chan job, 64)
	var wg sync.WaitGroup
	workers := runtime.NumCPU() - 4
	if workers < 2 {
		workers = 2
	}
	if workers > 6 {
		workers = 6
	}
	var producedSQL, producedSyn int64
	for w := 0; w < workers; w++ {
		wg.Add(1)
		go func(w int) {
			defer wg.Done()
			dir := filepath.Join(tmp, fmt.Sprintf("w%d", w))
			os.MkdirAll(dir, 0755)
			for j := range jobs {
				switch j.kind {
				case "sqlite":
					t0 := time.Now()
					r := c.Rand(uint64(1_000_000 + j.no))
					sc := genSQLCase(r, j.no)
					if only != "" {
						c.Logf("case %+v pre=%+v", *sc, sc.Pre)
					}
					pdir := filepath.Join(dir, "p")
					os.RemoveAll(pdir)
					os.MkdirAll(pdir, 0755)
					base, walb, err := sc.produce(pdir, r)
					os.RemoveAll(pdir)
					if err != nil {
						c.Inconclusive("SQLite script failed")
						c.Logf("sqlite case %d: %v", j.no, err)
						continue
					}
					atomic.AddInt64(&producedSQL, 1)
					c.Count("wal_bytes_sqlite", int64(len(walb)))
					t1 := time.Now()
					d.evalWAL(dir, &walCase{Kind: "sqlite", ID: fmt.Sprintf("s%d", j.no), Desc: sc, Base: base, WAL: walb, Trust: true, No: j.no})
					if os.Getenv("C05_TIMING") != "" {
						c.Logf("s%d ps=%d produce=%v eval=%v wal=%d base=%d", j.no, sc.PageSize, t1.Sub(t0), time.Since(t1), len(walb), len(base))
					}
				case "synthetic":
					r := c.Rand(uint64(5_000_000 + j.no))
					sc, base, walb := genSynth(r, j.no, tmpls)
					atomic.AddInt64(&producedSyn, 1)
					c.Count("synthetic_"+sc.Mutation, 1)
					d.evalWAL(dir, &walCase{Kind: "synthetic", ID: fmt.Sprintf("y%d", j.no), Desc: sc, Base: base, WAL: walb, No: 1<<20 + j.no})
				}
			}
		}(w)
	}
	for i := 0; i < nSQL; i++ {
		if only == "" || only == fmt.Sprintf("s%d", i) {
			jobs <- job{"sqlite", i}
		}
	}
	for i := 0; i < nSyn; i++ {
		if only == "" || only == fmt.Sprintf("y%d", i) {
			jobs <- job{"synthetic", i}
		}
	}
	close(jobs)
	wg.Wait()
	c.Count("wals_sqlite", producedSQL)
	c.Count("wals_synthetic", producedSyn)
	c.Require(int64(c.N(1500, 20000)), c.N(800, 10000))
}
