package snapgen

import (
	"bytes"
	"crypto/sha256"
	"encoding/binary"
	"encoding/hex"
	"encoding/json"
	"fmt"
	"io"
	"math/rand/v2"
	"os"
	"path/filepath"
	"time"

	"github.com/hashicorp/raft"
	"github.com/rqlite/rqlite/v10/snapshot"
	"github.com/rqlite/rqlite/v10/snapshot/proto"
	"verif/internal/sqlref"
	"verif/internal/vf"
)

// Config returns the raft configuration stored in every generated snapshot.
func Config() raft.Configuration {
	return raft.Configuration{Servers: []raft.Server{{Suffrage: raft.Voter, ID: "1", Address: "127.0.0.1:1"}}}
}

// FeedFull streams dbPath (+ walPaths) into w with snapshot.NewSnapshotStreamer,
// the way store.fsmSnapshot/StateReader.Persist feed a full snapshot.
func FeedFull(w io.Writer, dbPath string, walPaths ...string) error {
	st, err := snapshot.NewSnapshotStreamer(dbPath, walPaths...)
	if err != nil {
		return err
	}
	if err := st.Open(); err != nil {
		return err
	}
	defer st.Close()
	_, err = io.Copy(w, st)
	return err
}

// FeedIncremental streams the path header for stagingDir into w with
// snapshot.NewSnapshotPathStreamer (incremental snapshot of a running node).
func FeedIncremental(w io.Writer, stagingDir string) error {
	st, err := snapshot.NewSnapshotPathStreamer(stagingDir)
	if err != nil {
		return err
	}
	defer st.Close()
	_, err = io.Copy(w, st)
	return err
}

// FullStreamBytes returns the complete byte stream of FeedFull.
func FullStreamBytes(dbPath string, walPaths ...string) ([]byte, error) {
	var b bytes.Buffer
	err := FeedFull(&b, dbPath, walPaths...)
	return b.Bytes(), err
}

// IncStreamBytes returns the complete byte stream of FeedIncremental.
func IncStreamBytes(stagingDir string) ([]byte, error) {
	var b bytes.Buffer
	err := FeedIncremental(&b, stagingDir)
	return b.Bytes(), err
}

// ParseStream splits a snapshot stream into its header and the offsets of its
// parts: hdrEnd is the offset of the first data byte; ends[i] is the end offset
// of file i (database first, then WALs) according to the header.
func ParseStream(b []byte) (hdr *proto.SnapshotHeader, hdrEnd int, ends []int, err error) {
	if len(b) < snapshot.HeaderSizeLen {
		return nil, 0, nil, fmt.Errorf("short stream")
	}
	n := int(binary.BigEndian.Uint32(b[:4]))
	if len(b) < 4+n {
		return nil, 0, nil, fmt.Errorf("short header")
	}
	hdr, err = snapshot.UnmarshalSnapshotHeader(b[4 : 4+n])
	if err != nil {
		return nil, 0, nil, err
	}
	hdrEnd = 4 + n
	if f := hdr.GetFull(); f != nil {
		off := hdrEnd
		if f.DbHeader != nil {
			off += int(f.DbHeader.SizeBytes)
			ends = append(ends, off)
		}
		for _, w := range f.WalHeaders {
			off += int(w.SizeBytes)
			ends = append(ends, off)
		}
	}
	return hdr, hdrEnd, ends, nil
}

// SHA256 of a file ("" when unreadable).
func SHA256(path string) string { return sqlref.FileHash(path) }

// SHA256Bytes of a byte slice.
func SHA256Bytes(b []byte) string {
	h := sha256.Sum256(b)
	return hex.EncodeToString(h[:])
}

// Shape describes a snapshot store, oldest to newest:
// OlderFulls full snapshots (database only), then the newest full snapshot
// carrying FullWALs own WAL files (0 = a local full snapshot; >0 = a snapshot
// installed from a "database + WALs" stream), then one incremental snapshot per
// entry of Incs holding that many WAL files (1 = normal; 2,3 = the staging
// directory had collected WALs of earlier failed persists).
type Shape struct {
	OlderFulls int   `json:"older_fulls"`
	FullWALs   int   `json:"full_wals"`
	Incs       []int `json:"incs"`
	Stmts      int   `json:"stmts"` // statements per mutation round (default 6)
}

// String is a compact canonical form, e.g. "o1-f2-i1.3".
func (s Shape) String() string {
	out := fmt.Sprintf("o%d-f%d-i", s.OlderFulls, s.FullWALs)
	for i, n := range s.Incs {
		if i > 0 {
			out += "."
		}
		out += fmt.Sprint(n)
	}
	return out
}

// RandomShape draws a shape within the given bounds.
func RandomShape(r *rand.Rand, maxOlder, maxFullWALs, maxIncs, maxIncWALs int) Shape {
	s := Shape{OlderFulls: r.IntN(maxOlder + 1), FullWALs: r.IntN(maxFullWALs + 1)}
	n := r.IntN(maxIncs + 1)
	for i := 0; i < n; i++ {
		s.Incs = append(s.Incs, 1+r.IntN(maxIncWALs))
	}
	return s
}

// Snap is one generated snapshot and the database it has to resolve to.
type Snap struct {
	ID    string `json:"id"`
	Term  uint64 `json:"term"`
	Index uint64 `json:"index"`
	Kind  string `json:"kind"` // "full" | "incremental"
	NWALs int    `json:"n_wals"`
	Expect
	// RestoreSHA is the sha256 of the file produced by Store.Open(id) →
	// snapshot.Restore on the freshly built, unmodified store ("bytes after
	// restore"); RestoreFile keeps that file. StreamLen is the stream length.
	RestoreSHA  string `json:"restore_sha"`
	RestoreFile string `json:"restore_file"`
	StreamLen   int64  `json:"stream_len"`
}

// Manifest describes a built store. Snaps are ordered oldest to newest.
type Manifest struct {
	StoreDir string `json:"store_dir"`
	WorkDir  string `json:"work_dir"`
	Shape    Shape  `json:"shape"`
	Snaps    []Snap `json:"snaps"`
}

// Newest returns the newest snapshot.
func (m *Manifest) Newest() *Snap { return &m.Snaps[len(m.Snaps)-1] }

// ByID looks a snapshot up.
func (m *Manifest) ByID(id string) *Snap {
	for i := range m.Snaps {
		if m.Snaps[i].ID == id {
			return &m.Snaps[i]
		}
	}
	return nil
}

// persist creates a sink with the real Store.Create, feeds it and closes it.
func persist(st *snapshot.Store, term, index uint64, feed func(w io.Writer) error) (string, error) {
	sink, err := st.Create(1, index, term, Config(), 1, nil)
	if err != nil {
		return "", err
	}
	if err := feed(sink); err != nil {
		sink.Cancel()
		return "", fmt.Errorf("feeding sink: %w", err)
	}
	if err := sink.Close(); err != nil {
		return "", fmt.Errorf("closing sink: %w", err)
	}
	return sink.ID(), nil
}

// Build creates the store of the given shape in storeDir (must not exist or
// be empty) and keeps its auxiliary files (source database, expected database
// files, restored files) in workDir. The store's reaper is effectively
// disabled while building. Every snapshot is opened and restored once and its
// logical dump compared with the source's; a difference is returned as an
// error (the caller decides what that means).
//
// Build runs rqlite store code that exits the process on integrity or
// incremental-close failures; call it from a child process (BuildInChild).
func Build(storeDir, workDir string, shape Shape, r *rand.Rand) (*Manifest, error) {
	if shape.Stmts <= 0 {
		shape.Stmts = 6
	}
	if err := os.MkdirAll(workDir, 0755); err != nil {
		return nil, err
	}
	src, err := NewSource(filepath.Join(workDir, "src"), r)
	if err != nil {
		return nil, err
	}
	defer src.Close()
	st, err := snapshot.NewStore(storeDir)
	if err != nil {
		return nil, err
	}
	defer st.Close()
	st.SetReapThreshold(1 << 30)

	m := &Manifest{StoreDir: storeDir, WorkDir: workDir, Shape: shape}
	term, index := uint64(1+r.IntN(3)), uint64(1+r.IntN(50))
	next := func() (uint64, uint64) {
		index += uint64(1 + r.IntN(40))
		if r.IntN(6) == 0 {
			term++
		}
		return term, index
	}
	nfile := 0
	file := func(kind string) string {
		nfile++
		return filepath.Join(workDir, fmt.Sprintf("%s-%03d", kind, nfile))
	}
	if err := src.Mutate(shape.Stmts * 2); err != nil {
		return nil, err
	}

	addFull := func(nWALs int) error {
		if err := src.Mutate(shape.Stmts); err != nil {
			return err
		}
		t, i := next()
		dbf := file("full.db")
		if err := src.CutFull(dbf); err != nil {
			return err
		}
		var wals []string
		for k := 0; k < nWALs; k++ {
			if err := src.Mutate(shape.Stmts); err != nil {
				return err
			}
			wf := file("fullwal")
			if err := src.CutWALFile(wf); err != nil {
				return err
			}
			wals = append(wals, wf)
		}
		exp, err := src.State(file("expect.db"))
		if err != nil {
			return err
		}
		id, err := persist(st, t, i, func(w io.Writer) error { return FeedFull(w, dbf, wals...) })
		if err != nil {
			return err
		}
		m.Snaps = append(m.Snaps, Snap{ID: id, Term: t, Index: i, Kind: "full", NWALs: nWALs, Expect: exp})
		return nil
	}
	for k := 0; k < shape.OlderFulls; k++ {
		if err := addFull(0); err != nil {
			return nil, fmt.Errorf("older full %d: %w", k, err)
		}
	}
	if err := addFull(shape.FullWALs); err != nil {
		return nil, fmt.Errorf("newest full: %w", err)
	}
	for k, nw := range shape.Incs {
		staging := file("staging")
		for j := 0; j < nw; j++ {
			if err := src.Mutate(shape.Stmts); err != nil {
				return nil, err
			}
			if _, err := src.CutWALStaged(staging); err != nil {
				return nil, fmt.Errorf("incremental %d wal %d: %w", k, j, err)
			}
		}
		exp, err := src.State(file("expect.db"))
		if err != nil {
			return nil, err
		}
		t, i := next()
		id, err := persist(st, t, i, func(w io.Writer) error { return FeedIncremental(w, staging) })
		if err != nil {
			return nil, fmt.Errorf("incremental %d: %w", k, err)
		}
		m.Snaps = append(m.Snaps, Snap{ID: id, Term: t, Index: i, Kind: "incremental", NWALs: nw, Expect: exp})
	}

	// Resolve every snapshot once on the unmodified store.
	for k := range m.Snaps {
		sn := &m.Snaps[k]
		meta, rc, err := st.Open(sn.ID)
		if err != nil {
			return nil, fmt.Errorf("open %s: %w", sn.ID, err)
		}
		sn.RestoreFile = file("restored.db")
		n, err := snapshot.Restore(rc, sn.RestoreFile)
		rc.Close()
		if err != nil {
			return nil, fmt.Errorf("restore %s: %w", sn.ID, err)
		}
		sn.StreamLen = meta.Size
		if n != meta.Size {
			return nil, fmt.Errorf("restore %s read %d bytes, meta.Size=%d", sn.ID, n, meta.Size)
		}
		sn.RestoreSHA = SHA256(sn.RestoreFile)
		d, err := sqlref.DumpFile(sn.RestoreFile)
		if err != nil {
			return nil, fmt.Errorf("dump of restored %s: %w", sn.ID, err)
		}
		if d.Hash() != sn.DumpHash {
			want, _ := sqlref.DumpFile(sn.DBFile)
			return m, &MismatchError{ID: sn.ID, Diff: sqlref.Diff(want, d)}
		}
	}
	metas, err := st.ListAll()
	if err != nil {
		return nil, err
	}
	if len(metas) != len(m.Snaps) {
		return m, fmt.Errorf("store lists %d snapshots, built %d", len(metas), len(m.Snaps))
	}
	for k := range metas {
		if want := m.Snaps[len(m.Snaps)-1-k].ID; metas[k].ID != want {
			return m, fmt.Errorf("ListAll[%d]=%s, want %s", k, metas[k].ID, want)
		}
	}
	return m, nil
}

// MismatchError reports that a freshly built snapshot does not resolve to the
// database it was cut from.
type MismatchError struct {
	ID   string
	Diff string
}

func (e *MismatchError) Error() string {
	return fmt.Sprintf("snapshot %s restores to a different database than its source:\n%s", e.ID, e.Diff)
}

// BuildReq is the request of the "snapgen" worker.
type BuildReq struct {
	StoreDir string `json:"store_dir"`
	WorkDir  string `json:"work_dir"`
	Shape    Shape  `json:"shape"`
	Seed1    uint64 `json:"seed1"`
	Seed2    uint64 `json:"seed2"`
}

// BuildResp is its answer (one JSON document on stdout).
type BuildResp struct {
	Manifest *Manifest `json:"manifest"`
	Error    string    `json:"error,omitempty"`
	Mismatch bool      `json:"mismatch,omitempty"`
}

func init() {
	vf.RegisterWorker("snapgen", func(args []string) {
		var req BuildReq
		if len(args) < 1 || json.Unmarshal([]byte(args[0]), &req) != nil {
			fmt.Fprintln(os.Stderr, "snapgen worker: bad request")
			os.Exit(2)
		}
		m, err := Build(req.StoreDir, req.WorkDir, req.Shape, rand.New(rand.NewPCG(req.Seed1, req.Seed2)))
		resp := BuildResp{Manifest: m}
		if err != nil {
			resp.Error = err.Error()
			_, resp.Mismatch = err.(*MismatchError)
		}
		b, _ := json.Marshal(resp)
		os.Stdout.Write(b)
	})
}

// BuildInChild runs Build in a child process (`vcheck worker snapgen`), so a
// hard exit inside rqlite's store code is an error here instead of the end of
// the caller. The random stream is PCG(seed1, seed2).
func BuildInChild(storeDir, workDir string, shape Shape, seed1, seed2 uint64, logPath string) (*Manifest, error) {
	b, _ := json.Marshal(BuildReq{StoreDir: storeDir, WorkDir: workDir, Shape: shape, Seed1: seed1, Seed2: seed2})
	out, code, ok := vf.RunWorkerOnce(false, "snapgen", []string{string(b)}, nil, logPath, 120*time.Second)
	if !ok {
		return nil, fmt.Errorf("snapgen child timed out")
	}
	var resp BuildResp
	if err := json.Unmarshal(out, &resp); err != nil {
		return nil, fmt.Errorf("snapgen child exit=%d, no answer (%v)", code, err)
	}
	if resp.Error != "" {
		if resp.Mismatch {
			return resp.Manifest, fmt.Errorf("mismatch: %s", resp.Error)
		}
		return resp.Manifest, fmt.Errorf("%s", resp.Error)
	}
	return resp.Manifest, nil
}

// UseFastTmp points $TMPDIR of this process (and of the children it starts
// afterwards) to a fresh directory on /dev/shm, when that is usable, and
// returns a function that removes it. The snapshot code fsyncs every file and
// directory it touches; on the shared disk that dominates the run time of
// checks that build thousands of snapshots. Process exits (the only kind of
// crash these checks inject) behave the same on tmpfs. Set VERIF_NO_SHM=1 to
// stay on the regular $TMPDIR.
func UseFastTmp(prefix string) (cleanup func()) {
	if os.Getenv("VERIF_NO_SHM") != "" {
		return func() {}
	}
	d, err := os.MkdirTemp("/dev/shm", "verif-"+prefix+"-")
	if err != nil {
		return func() {}
	}
	old, had := os.LookupEnv("TMPDIR")
	os.Setenv("TMPDIR", d)
	return func() {
		if had {
			os.Setenv("TMPDIR", old)
		} else {
			os.Unsetenv("TMPDIR")
		}
		os.RemoveAll(d)
	}
}

// Par returns the number of parallel child processes a check should use:
// $VERIF_PAR when set, else def.
func Par(def int) int {
	var n int
	if _, err := fmt.Sscan(os.Getenv("VERIF_PAR"), &n); err == nil && n > 0 {
		return n
	}
	return def
}
