// Package c21: backups are complete, point-in-time consistent copies, and a
// backup that cannot be produced or transferred completely is reported as an
// error (DESIGN §6 C21).
package c21

import (
	"bufio"
	"bytes"
	"encoding/json"
	"fmt"
	"os"
	"path/filepath"
	"sort"
	"strings"
	"sync"
	"time"

	"verif/internal/vf"
)

func init() {
	vf.Register("C21", "exploration", run)
	vf.RegisterWorker("c21", worker)
}

const maxParallel = 4

var (
	fmts   = []string{"binary", "delete", "sql"}
	routes = []string{"leader", "forward", "noleader"}
	filts  = []string{"", "a,b,bal,meta", "a,meta", "b,bal"}
)

// allCombos is every combination of format x vacuum x compress x tables
// filter x route. Vacuum with a non-binary format is refused by rqlite; those
// combinations are requested too (the refusal must be an error, not a body).
func allCombos() []bcase {
	var out []bcase
	for _, f := range fmts {
		for _, v := range []bool{false, true} {
			for _, c := range []bool{false, true} {
				for _, t := range filts {
					for _, r := range routes {
						out = append(out, bcase{Fmt: f, Vacuum: v, Compress: c, Tables: t, Route: r})
					}
				}
			}
		}
	}
	return out
}

func valid(b bcase) bool { return !(b.Vacuum && b.Fmt != "binary") }

func plan(c *vf.Ctx) []spec {
	var jobs []spec
	writers := 3
	r := c.Rand(1)
	combos := allCombos()
	var validOnes []bcase
	for _, b := range combos {
		if valid(b) {
			validOnes = append(validOnes, b)
		}
	}
	// mix: every combination once, then further passes over the valid ones
	passes := c.N(1, 14)
	var cases []bcase
	cases = append(cases, combos...)
	for p := 0; p < passes; p++ {
		cases = append(cases, validOnes...)
	}
	r.Shuffle(len(cases), func(i, j int) { cases[i], cases[j] = cases[j], cases[i] })
	for i := range cases {
		cases[i].No = i
	}
	per := c.N(80, 72)
	for lo := 0; lo < len(cases); lo += per {
		hi := min(lo+per, len(cases))
		jobs = append(jobs, spec{Kind: "mix", Seed: c.Seed, Writers: writers, Prepop: c.N(150, 300), Cases: cases[lo:hi]})
	}
	// storm: binary backups only, five clients at once
	var storm []bcase
	ns := c.N(60, 600)
	for i := 0; i < ns; i++ {
		b := bcase{Fmt: "binary", Compress: i%2 == 1, Route: routes[i%3]}
		if b.Route == "forward" {
			b.Compress = false // (forwarded+compress is the known 4s stall)
		}
		storm = append(storm, b)
	}
	r.Shuffle(len(storm), func(i, j int) { storm[i], storm[j] = storm[j], storm[i] })
	for i := range storm {
		storm[i].No = len(cases) + i
	}
	for lo := 0; lo < len(storm); lo += 150 {
		hi := min(lo+150, len(storm))
		jobs = append(jobs, spec{Kind: "storm", Seed: c.Seed, Writers: writers, Prepop: c.N(400, 600), Cases: storm[lo:hi]})
	}
	// cuts: sampled positions for every (format, compress, mode)
	pos := []string{"abs:0", "abs:1", "abs:7", "abs:8", "abs:9", "abs:17", "abs:18", "abs:19", "abs:40",
		"pm:30", "pm:100", "pm:200", "pm:300", "pm:400", "pm:500", "pm:600", "pm:700", "pm:800", "pm:900", "pm:970",
		"end:-9", "end:-8", "end:-2", "end:-1", "end:0"}
	no := len(cases) + len(storm)
	var cuts []bcase
	// reset: faultnet cuts the next connection the follower dials. eof / rst: the
	// connection the backup command is written on (pooled or new) is closed /
	// reset by the peer after N bytes; only that one, so whatever the follower
	// does next (give up, or ask again) meets a working link.
	for _, mode := range []string{"reset", "eof", "rst"} {
		for _, comp := range []bool{false, true} {
			for _, f := range fmts {
				pp := pos
				if f != "binary" && c.Quick() {
					// quick: the full position list for binary, a third of it for the others
					pp = nil
					for k, p := range pos {
						if (k+len(f))%3 == 0 {
							pp = append(pp, p)
						}
					}
				}
				for _, p := range pp {
					cuts = append(cuts, bcase{No: no, Fmt: f, Compress: comp, Route: "forward", CutMode: mode, CutPos: p})
					no++
				}
			}
		}
	}
	// the same with a link that stays broken: every connection used for the
	// request is cut at the same position (quick: binary, every third position)
	for _, mode := range []string{"eof", "rst"} {
		for _, comp := range []bool{false, true} {
			for _, f := range fmts {
				if f != "binary" && c.Quick() {
					continue
				}
				for k, p := range pos {
					if c.Quick() && k%3 != 1 {
						continue
					}
					cuts = append(cuts, bcase{No: no, Fmt: f, Compress: comp, Route: "forward", CutMode: mode, CutPos: p, CutAll: true})
					no++
				}
			}
		}
	}
	cutJobs := 2
	if !c.Quick() {
		cutJobs = 4
	}
	for k := 0; k < cutJobs; k++ {
		var cs []bcase
		for i, b := range cuts {
			if i%cutJobs == k {
				cs = append(cs, b)
			}
		}
		jobs = append(jobs, spec{Kind: "cut", Seed: c.Seed, Writers: writers, Prepop: c.N(150, 300), Cases: cs})
	}
	if !c.Quick() {
		// dense sweep: every byte position of the stream of a small database, and
		// every 97th position of the stream of the large one, for each (compress, mode)
		for _, mode := range []string{"reset", "eof", "rst"} {
			for _, comp := range []bool{false, true} {
				d := bcase{No: no, Fmt: "binary", Compress: comp, Route: "forward", CutMode: mode}
				no++
				if mode != "rst" {
					jobs = append(jobs, spec{Kind: "cut", Seed: c.Seed, Writers: writers, Prepop: 8,
						Dense: &d, DenseLo: 0, DenseHi: 1000, DenseStep: 1})
				}
				d2 := d
				d2.No = no
				no++
				jobs = append(jobs, spec{Kind: "cut", Seed: c.Seed, Writers: writers, Prepop: 300,
					Dense: &d2, DenseLo: 0, DenseHi: 1000, DenseStep: 97})
			}
		}
	}
	for i := range jobs {
		jobs[i].Job = i
	}
	return jobs
}

func run(c *vf.Ctx) {
	c.Rule("case = one HTTP backup request against a leader+follower cluster. mix cases: every combination of {binary, delete, sql} x vacuum x compress x tables filter {none, all four, a+meta, b+bal} x {leader, follower forwarding to the leader, follower ?noleader}, issued by two backup clients while 3 writers commit cross-table transactions, plus a storm of binary backups from five clients at once (every binary backup snapshots first, so copies of the main file overlap checkpoints); non-trivial = 200 response that restored while at least one writer committed between request and response, distinct by (combination, restored vector of per-writer last). cut cases (quiescent database): forwarded backup whose follower->leader cluster connection delivers only N bytes, by three kinds of fault: faultnet reset of the next connection dialed; clean close by the peer; connection reset by peer (ECONNRESET) - the latter two applied to the connection the backup command is written on, whether it came from the inter-node connection pool or was newly dialed, and either to that one connection only (transient fault: any further connection the follower opens for the same request works) or to every connection used for the request (link stays broken); N sampled incl. 0, 7/8/9 (response header boundary), 18 (gzip header), per-mille positions over the stream, last byte, L (quick) or every byte position (thorough); a 200 must restore to the committed state and is additionally compared in length with the complete backup; non-trivial = the cut fired, distinct by (format, compress, mode, N)")
	c.Assume("the restored file is judged with the stock SQLite driver (sqlref), not with rqlite code")
	c.Assume("writers talk to the leader directly; a writer whose request outcome is unknown stops, so 'started' is an upper bound of what can be committed")
	c.Assume("no lower bound on freshness is asserted (the property says 'a single point in time', not 'the newest'); staleness is only recorded")
	c.Assume("the peer-close and reset-by-peer cuts are produced by a harness Dialer handed to a real cluster.Client/proxy/http.Service on the follower (read fails with io.EOF / *net.OpError{ECONNRESET}, later writes with EPIPE); the faultnet reset cut by faultnet.CutNextAfter (plain error value)")
	jobs := plan(c)
	if c.ReplayFile != "" {
		jobs = replayJobs(c)
	}
	tmp := vf.TempDir("c21")
	if os.Getenv("C21_KEEP") == "" {
		defer os.RemoveAll(tmp)
	} else {
		c.Logf("keeping %s", tmp)
	}
	sem := make(chan struct{}, maxParallel)
	var wg sync.WaitGroup
	var jmu sync.Mutex
	var maxStream int64
	expected := 0
	for _, j := range jobs {
		expected += len(j.Cases)
	}
	for _, j := range jobs {
		wg.Add(1)
		go func(j spec) {
			defer wg.Done()
			sem <- struct{}{}
			defer func() { <-sem }()
			j.Dir = filepath.Join(tmp, fmt.Sprintf("j%d", j.Job))
			b, _ := json.Marshal(j)
			logp := filepath.Join(tmp, fmt.Sprintf("j%d.log", j.Job))
			to := 8 * time.Minute
			if !c.Quick() {
				to = 40 * time.Minute
			}
			out, code, ok := vf.RunWorkerOnce(false, "c21", []string{string(b)}, nil, logp, to)
			jmu.Lock()
			defer jmu.Unlock()
			done := false
			sc := bufio.NewScanner(bytes.NewReader(out))
			sc.Buffer(make([]byte, 1<<20), 1<<26)
			n := 0
			for sc.Scan() {
				var rec struct {
					B *bres   `json:"bres"`
					J *jobres `json:"jobres"`
				}
				if json.Unmarshal(sc.Bytes(), &rec) != nil {
					continue
				}
				if rec.B != nil {
					n++
					judge(c, rec.B)
				}
				if rec.J != nil {
					done = rec.J.Done
					if rec.J.SetupErr != "" {
						c.Logf("job %d (%s): setup: %s", j.Job, j.Kind, rec.J.SetupErr)
						c.Inconclusive("cluster setup: " + firstWords(rec.J.SetupErr))
					}
					c.Count("snapshots_during_jobs", rec.J.Snapshots)
					var tx int64
					for _, a := range rec.J.Acked {
						tx += a
					}
					c.Count("transactions_committed", tx)
					if rec.J.StreamLen > maxStream {
						maxStream = rec.J.StreamLen
						c.Extra("stream_len_bytes_max", maxStream)
					}
				}
			}
			if lb, err := os.ReadFile(logp); err == nil {
				c.Count("leader_log:failed_to_stream_backup", int64(bytes.Count(lb, []byte("failed to stream backup"))))
				c.Count("http_log:superfluous_WriteHeader_in_handleBackup", int64(bytes.Count(lb, []byte("superfluous response.WriteHeader call from github.com/rqlite/rqlite/v10/http.(*Service).handleBackup"))))
			}
			if !ok || code != 0 || !done {
				c.Logf("job %d (%s): exit=%d finished=%v complete=%v results=%d (log tail: %s)", j.Job, j.Kind, code, ok, done, n, tail(logp))
				c.Inconclusive("worker did not finish cleanly")
			}
			c.Logf("job %d (%s) done: %d results", j.Job, j.Kind, n)
		}(j)
	}
	wg.Wait()
	if c.ReplayFile == "" {
		c.Require(int64(expected/2), c.N(60, 600))
	}
}

func firstWords(s string) string {
	if k := strings.Index(s, ":"); k > 0 {
		return s[:k]
	}
	return s
}

func tail(p string) string {
	b, _ := os.ReadFile(p)
	if len(b) > 300 {
		b = b[len(b)-300:]
	}
	return strings.ReplaceAll(string(b), "\n", " | ")
}

func replayJobs(c *vf.Ctx) []spec {
	b, err := os.ReadFile(c.ReplayFile)
	if err != nil {
		panic(err)
	}
	var f struct {
		Case struct {
			Res bres `json:"result"`
		} `json:"case"`
	}
	if err := json.Unmarshal(b, &f); err != nil {
		panic(err)
	}
	bc := f.Case.Res.Case
	kind := "mix"
	if f.Case.Res.Storm {
		kind = "storm"
	}
	if bc.CutMode != "" {
		kind = "cut"
		if f.Case.Res.N > 0 || bc.CutPos == "" {
			bc.CutPos = fmt.Sprintf("abs:%d", f.Case.Res.N)
		}
	}
	// the same request 12 times under the same kind of load
	var cs []bcase
	for i := 0; i < 12; i++ {
		x := bc
		x.No = i
		cs = append(cs, x)
	}
	return []spec{{Kind: kind, Seed: c.Seed, Writers: 3, Prepop: 150, Cases: cs}}
}

// ---- oracle ----

func judge(c *vf.Ctx, r *bres) {
	c.Eval(1)
	bc := r.Case
	isCut := bc.CutMode != ""
	rep := map[string]any{"result": r}
	if r.Inconcl != "" {
		c.Inconclusive(r.Inconcl)
		return
	}
	if isCut {
		c.Count("cut:"+bc.cutName()+":cases", 1)
		if r.CutFired {
			c.Count("cut:"+bc.cutName()+":fired", 1)
			c.Nontrivial(fmt.Sprintf("cut|%s|%v|%s|%d", bc.Fmt, bc.Compress, bc.cutName(), r.N))
			if r.CutPooled {
				c.Count("cut:"+bc.cutName()+":fired_on_pooled_connection", 1)
			}
		}
		if r.ConnsUsed > 1 {
			// the follower's inter-node client asked the leader again within one request
			c.Count("cut:"+bc.cutName()+":request_used_more_than_one_connection", 1)
		}
	} else {
		c.Count("route:"+bc.Route, 1)
		if r.Storm {
			c.Count("storm_cases", 1)
		}
	}
	// 1. anything that is not a normally terminated 200 is "reported as an error"
	if r.ReqErr != "" {
		c.Count("outcome:request-error", 1)
		c.Held(1)
		return
	}
	if r.BodyErr != "" {
		c.Count("outcome:aborted-response", 1)
		c.Held(1)
		return
	}
	if r.Status != 200 {
		c.Count(fmt.Sprintf("outcome:status-%d", r.Status), 1)
		if !isCut && valid(bc) {
			c.Count("valid-combination-refused", 1)
			if r.Status >= 500 {
				c.Logf("case %d %s: %d %s", bc.No, bc.combo(), r.Status, r.ErrText)
			}
		}
		c.Held(1)
		return
	}
	c.Count("outcome:status-200", 1)
	if !valid(bc) {
		// rqlite answered 200 to a combination it is documented to refuse: the body
		// must then still be a backup; judged below like any other
		c.Count("refusable-combination-served", 1)
	}
	ex := r.Exam
	if ex == nil {
		c.Inconclusive("200 without examination")
		return
	}
	what := func(s string) string {
		cut := ""
		if isCut {
			cut = fmt.Sprintf(" with the follower->leader stream cut (%s) after %d of %d bytes", bc.cutName(), r.N, r.L)
			if r.ConnsUsed > 0 {
				cut += fmt.Sprintf(" (the follower sent the backup command on %d connection(s), %d of them cut)", r.ConnsUsed, r.ConnsCut)
			}
		}
		return fmt.Sprintf("GET %s via %s%s answered 200 with a normally terminated body of %d bytes, but %s", bc.query(), bc.Route, cut, r.BodyLen, s)
	}
	comp := "plain"
	if bc.Compress {
		comp = "compress"
	}
	// 2. the body must be a restorable database
	if ex.DecodeErr != "" || (ex.Integrity != "ok") {
		reason := ex.DecodeErr
		if reason == "" {
			reason = "integrity_check: " + ex.Integrity
		}
		var key string
		switch {
		case ex.ErrTail != "" && !isCut && bc.Route == "forward" && bc.Compress && strings.Contains(ex.ErrTail, "i/o timeout"):
			// nothing was cut: the inter-node client read the complete compressed
			// stream, kept reading until its deadline and reported that as failure
			key = "remote-compressed:stream-end-not-detected:timeout-error-appended-to-200"
		case ex.ErrTail != "":
			// an error message was appended to a body that had already been started
			// (key by the path that produced the body, whatever made it fail)
			key = "error-after-body-started:reported-as-200:local"
			if bc.Route == "forward" {
				key = "error-after-body-started:reported-as-200:forward:" + comp
			}
		case isCut && r.RefLen > 0 && int64(r.BodyLen) > r.RefLen:
			// more than one backup's worth of bytes: output of a failed transfer
			// was kept and the output of another one added to it
			key = fmt.Sprintf("partial-output-kept-as-success:forward:%s:%s", comp, bc.cutName())
			reason += fmt.Sprintf(" (the body is longer than the complete backup, which is %d bytes)", r.RefLen)
		case bc.Route == "forward" && bc.Compress && (bc.CutMode == "eof" || !isCut):
			// the leader's end of the inter-node connection was closed before the
			// end of the stream (injected peer-close, or the leader's own backup
			// failing: cluster/service.go logs it and closes the connection)
			key = "truncated-as-success:forward:compress:peer-closed"
		case isCut:
			key = fmt.Sprintf("truncated-as-success:forward:%s:%s", comp, bc.cutName())
		default:
			key = fmt.Sprintf("unrestorable:%s:%s:%s", bc.Fmt, comp, bc.Route)
		}
		tailNote := ""
		if ex.ErrTail != "" {
			tailNote = fmt.Sprintf(" (the body ends with the error text %q)", ex.ErrTail)
		}
		c.Violation(key, what("the body is not a restorable backup: "+reason+tailNote), rep)
		return
	}
	if ex.IndexSkip != "" {
		c.Violation("sql-dump:tables-filter:index-on-unselected-table",
			what("executing the dump fails ("+ex.IndexSkip+"): the dump lists the indexes of tables that were not selected"), rep)
		// the rest of the dump is still judged
	}
	// 3. invariants / equality with a committed state
	var kinds []string
	seen := map[string]bool{}
	for _, b := range ex.Bad {
		k, _, _ := strings.Cut(b, ":")
		if !seen[k] {
			seen[k] = true
			kinds = append(kinds, k)
		}
	}
	future := ""
	for w, l := range ex.Vector {
		if w < len(r.UB) && l > r.UB[w] {
			future = fmt.Sprintf("writer %d: backup has last=%d but the writer had only started transaction %d when the response ended", w+1, l, r.UB[w])
		}
	}
	prio := []string{"schema", "gap", "sum", "skew"}
	kind := ""
	for _, p := range prio {
		if seen[p] {
			kind = p
			break
		}
	}
	if kind == "" && future != "" {
		kind = "future"
	}
	if kind == "" && r.PIT != "" {
		kind = "not-a-commit-point"
	}
	if kind != "" {
		detail := strings.Join(ex.Bad, "; ")
		if future != "" {
			detail += "; " + future
		}
		if r.PIT != "" {
			detail += "; " + r.PIT
		}
		key := fmt.Sprintf("inconsistent:%s:%s", bc.Fmt, kind)
		if bc.Fmt == "binary" && bc.Vacuum {
			key = fmt.Sprintf("inconsistent:binary-vacuum:%s", kind)
		}
		if isCut {
			key += ":forward-cut"
		}
		c.Violation(key, what("the restored database is not a committed state: "+strings.TrimPrefix(detail, "; ")), rep)
		return
	}
	c.Held(1)
	c.Count("restored:"+bc.Fmt, 1)
	c.Count("restored_rows", int64(ex.Rows))
	if bc.Fmt == "delete" && ex.Journal != "delete" {
		c.Count("delete_format_not_in_delete_mode", 1)
	}
	if !isCut {
		concurrent := false
		var lag int64
		for w := range r.LB {
			if w < len(r.UB) && r.UB[w] > r.LB[w] {
				concurrent = true
			}
			if w < len(ex.Vector) && ex.Vector[w] >= 0 && r.LB[w]-ex.Vector[w] > lag {
				lag = r.LB[w] - ex.Vector[w]
			}
		}
		if lag > 0 {
			c.Count("stale:"+bc.Route+":backups_behind_acked_at_request", 1)
			if lag > c.Counter("stale:"+bc.Route+":max_lag_tx") {
				c.Count("stale:"+bc.Route+":max_lag_tx", lag-c.Counter("stale:"+bc.Route+":max_lag_tx"))
			}
		}
		if concurrent {
			c.Count("restored_while_writes_committed", 1)
			c.Nontrivial(bc.combo() + fmt.Sprint(ex.Vector))
			c.Sample(map[string]any{"request": bc.query(), "route": bc.Route, "served_by": r.ServedBy, "body_len": r.BodyLen,
				"vector": ex.Vector, "acked_at_start": r.LB, "started_at_end": r.UB, "rows": ex.Rows, "ms": r.Ms})
		}
	}
	_ = sort.Strings
}
