package c17

// Worker side of C17: a real 3-node in-process cluster (harness A) with a
// seeded dataset and no other traffic. Every generated text is sent over real
// HTTP in several ways; after each request the state of every node (database
// and WAL file bytes, logical dump, raft indexes) is compared with the state
// before it.

import (
	"crypto/sha256"
	"encoding/hex"
	"encoding/json"
	"fmt"
	"net/url"
	"os"
	"path/filepath"
	"strings"
	"sync"
	"time"

	"github.com/rqlite/rqlite/v10/command/proto"
	csql "github.com/rqlite/rqlite/v10/command/sql"
	"github.com/rqlite/rqlite/v10/store"
	"verif/internal/hcluster"
	"verif/internal/sqlref"
	"verif/internal/vf"
)

// The harness's own write inside a "mixed" unified request: a statement rqlite
// must treat as a write and which changes nothing.
const noopWrite = "DELETE FROM t1 WHERE 0"

// numbers of the guard-off texts start here (ordinary texts are numbered from 0)
const guardBase = 1000000

type nodeState struct {
	DBHash    string `json:"db_hash"`
	WALHash   string `json:"wal_hash"`
	DBSize    int64  `json:"db_size"`
	WALSize   int64  `json:"wal_size"`
	Commit    uint64 `json:"commit_index"`
	Applied   uint64 `json:"applied_index"`
	DBApplied uint64 `json:"db_applied_index"`
}

func hashFile(p string) (string, int64) {
	b, err := os.ReadFile(p)
	if err != nil {
		return "", -1
	}
	h := sha256.Sum256(b)
	return hex.EncodeToString(h[:8]), int64(len(b))
}

// Change describes what a request did to one node.
type Change struct {
	Node      string    `json:"node"`
	Logical   bool      `json:"logical"`    // logical dump differs
	SizeOnly  bool      `json:"size_only"`  // same dump, db or WAL size differs
	BytesOnly bool      `json:"bytes_only"` // same dump, same sizes, different bytes
	Diff      string    `json:"diff,omitempty"`
	Before    nodeState `json:"before"`
	After     nodeState `json:"after"`
}

// ReqResult is the outcome of one request.
type ReqResult struct {
	Combo     Combo    `json:"combo"`
	Status    int      `json:"status"`
	Reply     string   `json:"reply,omitempty"`
	Judged    bool     `json:"judged"`
	Why       string   `json:"why"` // why judged / not judged
	ViaLog    bool     `json:"via_log"`
	Classes   string   `json:"classes,omitempty"` // rqlite's own RO/RW classification of the statements (unified)
	Changes   []Change `json:"changes,omitempty"`
	Inconcl   string   `json:"inconclusive,omitempty"`
	QShaped   bool     `json:"all_query_shaped,omitempty"`
	ErrInBody bool     `json:"error_in_body,omitempty"`
}

// TextResult is what the worker reports per text.
type TextResult struct {
	Text    Text             `json:"text"`
	Reqs    []ReqResult      `json:"reqs"`
	Counts  map[string]int64 `json:"counts,omitempty"`
	Aborted string           `json:"aborted,omitempty"`
}

type workerOut struct {
	SetupErr string         `json:"setup_err,omitempty"`
	Result   *TextResult    `json:"result,omitempty"`
	Final    map[string]any `json:"final,omitempty"`
}

type harness struct {
	cl     *hcluster.Cluster
	nodes  []*hcluster.Node
	cur    map[string]nodeState
	dumps  map[string]*sqlref.Dump
	counts map[string]int64
	attDir string
}

func (h *harness) readState(n *hcluster.Node) nodeState {
	var s nodeState
	p := filepath.Join(n.Dir, "db.sqlite")
	s.DBHash, s.DBSize = hashFile(p)
	s.WALHash, s.WALSize = hashFile(p + "-wal")
	s.Commit, _ = n.Store.CommitIndex()
	s.Applied = n.Store.AppliedIndex()
	s.DBApplied = n.Store.DBAppliedIndex()
	return s
}

func fsmIndex(n *hcluster.Node) (uint64, bool) {
	st, err := n.Store.Stats()
	if err != nil {
		return 0, false
	}
	switch v := st["fsm_index"].(type) {
	case uint64:
		return v, true
	case int64:
		return uint64(v), true
	}
	return 0, false
}

// quiesce waits until every node's FSM has applied what the leader's FSM has.
func (h *harness) quiesce(d time.Duration) bool {
	deadline := time.Now().Add(d)
	for time.Now().Before(deadline) {
		l := h.cl.Leader()
		if l == nil {
			time.Sleep(20 * time.Millisecond)
			continue
		}
		// cheap test first: raft must have handed every committed entry to the FSMs
		ci, _ := l.Store.CommitIndex()
		behind := false
		for _, n := range h.nodes {
			nci, _ := n.Store.CommitIndex()
			if nci < ci || n.Store.AppliedIndex() < ci {
				behind = true
			}
		}
		if behind {
			time.Sleep(2 * time.Millisecond)
			continue
		}
		li, ok := fsmIndex(l)
		if !ok {
			time.Sleep(5 * time.Millisecond)
			continue
		}
		for _, n := range h.nodes {
			if n == l {
				continue
			}
			for {
				fi, ok := fsmIndex(n)
				if ok && fi >= li {
					break
				}
				if time.Now().After(deadline) {
					return false
				}
				time.Sleep(3 * time.Millisecond)
			}
		}
		// nothing new arrived meanwhile
		if ci2, _ := l.Store.CommitIndex(); ci2 == ci && h.cl.Leader() == l {
			return true
		}
	}
	return false
}

// rebaseline re-reads everything (after an accepted change).
func (h *harness) rebaseline() error {
	for _, n := range h.nodes {
		h.cur[n.ID] = h.readState(n)
		d, err := sqlref.DumpFile(filepath.Join(n.Dir, "db.sqlite"))
		if err != nil {
			return fmt.Errorf("dump %s: %w", n.ID, err)
		}
		h.dumps[n.ID] = d
	}
	return nil
}

// observe compares every node with the recorded state and then adopts the new state.
func (h *harness) observe() ([]Change, error) {
	type item struct {
		n             *hcluster.Node
		before, after nodeState
		d             *sqlref.Dump
		err           error
	}
	var changed []*item
	for _, n := range h.nodes {
		before := h.cur[n.ID]
		after := h.readState(n)
		h.cur[n.ID] = after
		if after.DBHash == before.DBHash && after.WALHash == before.WALHash {
			continue
		}
		changed = append(changed, &item{n: n, before: before, after: after})
	}
	if len(changed) == 0 {
		return nil, nil
	}
	var wg sync.WaitGroup
	for _, it := range changed {
		wg.Add(1)
		go func(it *item) {
			defer wg.Done()
			it.d, it.err = sqlref.DumpFile(filepath.Join(it.n.Dir, "db.sqlite"))
		}(it)
	}
	wg.Wait()
	var out []Change
	for _, it := range changed {
		h.counts["file_bytes_changed"]++
		if it.err != nil {
			return out, fmt.Errorf("dump %s: %w", it.n.ID, it.err)
		}
		h.counts["dumps_taken"]++
		ch := Change{Node: it.n.ID, Before: it.before, After: it.after}
		if it.d.String() != h.dumps[it.n.ID].String() {
			ch.Logical = true
			ch.Diff = sqlref.Diff(h.dumps[it.n.ID], it.d)
		} else if it.after.DBSize != it.before.DBSize || it.after.WALSize != it.before.WALSize {
			ch.SizeOnly = true
		} else {
			ch.BytesOnly = true
		}
		h.dumps[it.n.ID] = it.d
		out = append(out, ch)
	}
	return out, nil
}

func (h *harness) exec(stmts []string) error {
	l := h.cl.WaitLeader(60 * time.Second)
	if l == nil {
		return fmt.Errorf("no leader")
	}
	var body []any
	for _, s := range stmts {
		body = append(body, s)
	}
	r := h.cl.PostJSON(l, "/db/execute", body)
	a, err := r.Parse()
	if err != nil || r.Status != 200 {
		return fmt.Errorf("execute: %v status %d %s", err, r.Status, r.Body)
	}
	if a.Error != "" {
		return fmt.Errorf("execute: %s", a.Error)
	}
	for i, res := range a.Results {
		if res.Error != "" {
			return fmt.Errorf("execute %q: %s", stmts[i], res.Error)
		}
	}
	return nil
}

func startCluster(dir string) (*harness, error) {
	cl := hcluster.New(filepath.Join(dir, "nodes"))
	h := &harness{cl: cl, cur: map[string]nodeState{}, dumps: map[string]*sqlref.Dump{}, counts: map[string]int64{}, attDir: filepath.Join(dir, "att")}
	os.MkdirAll(h.attDir, 0755)
	for i := 1; i <= 3; i++ {
		o := hcluster.Options{ID: fmt.Sprintf("n%d", i), HeartbeatTimeout: 3 * time.Second, ElectionTimeout: 3 * time.Second, LeaderLease: 2 * time.Second,
			// no snapshots: they legitimately checkpoint the WAL and would change file sizes
			SnapshotThreshold: 1 << 40, SnapshotInterval: time.Hour, NoSnapshotOnClose: true,
			// followers learn about a commit with the next AppendEntries; keep that short
			Tune: func(s *store.Store) { s.CommitTimeout = 10 * time.Millisecond }}
		n, err := cl.Add(o, true)
		if err != nil {
			cl.Close()
			return nil, fmt.Errorf("node %d: %w", i, err)
		}
		h.nodes = append(h.nodes, n)
	}
	if cl.WaitLeader(120*time.Second) == nil {
		cl.Close()
		return nil, fmt.Errorf("no leader within 120 s")
	}
	if err := h.exec(seedSQL); err != nil {
		cl.Close()
		return nil, err
	}
	if err := h.exec(append(seedRows(0, 40), seedT2()...)); err != nil {
		cl.Close()
		return nil, err
	}
	if !h.quiesce(120 * time.Second) {
		cl.Close()
		return nil, fmt.Errorf("cluster did not quiesce after seeding")
	}
	if err := h.rebaseline(); err != nil {
		cl.Close()
		return nil, err
	}
	ref := h.dumps["n1"].String()
	for id, d := range h.dumps {
		if d.String() != ref {
			cl.Close()
			return nil, fmt.Errorf("nodes differ after seeding (%s)", id)
		}
	}
	return h, nil
}

func (h *harness) roles() (*hcluster.Node, *hcluster.Node) {
	l := h.cl.WaitLeader(60 * time.Second)
	if l == nil {
		return nil, nil
	}
	for _, n := range h.nodes {
		if n != l {
			return l, n
		}
	}
	return l, nil
}

// classify asks the real code how a unified request treats each statement:
// the statements go through the same rewriting step as in the HTTP handler and
// then, one at a time, through Store.RORWCount.
func classify(n *hcluster.Node, sqls []string) string {
	var sb strings.Builder
	for _, s := range sqls {
		st := []*proto.Statement{{Sql: s}}
		csql.Process(st, true, true)
		rw, ro := n.Store.RORWCount(&proto.ExecuteQueryRequest{Request: &proto.Request{Statements: st}})
		switch {
		case rw == 1:
			sb.WriteString("W")
		case ro == 1:
			sb.WriteString("R")
		default:
			sb.WriteString("-")
		}
	}
	return sb.String()
}

// items returns the elements of the request array for text t.
func items(t *Text) []any {
	var out []any
	for _, p := range t.Pre {
		out = append(out, p)
	}
	return append(out, item(t))
}

func sqls(t *Text) []string {
	return append(append([]string{}, t.Pre...), t.SQL)
}

func item(t *Text) any {
	if len(t.Params) == 0 {
		return t.SQL
	}
	return append([]any{t.SQL}, t.Params...)
}

func trunc(s string, n int) string {
	if len(s) > n {
		return s[:n] + "…"
	}
	return s
}

// run sends text t in the way described by c and judges it.
func (h *harness) run(t *Text, c Combo) ReqResult {
	res := ReqResult{Combo: c}
	l, f := h.roles()
	if l == nil || f == nil {
		res.Inconcl = "no leader"
		return res
	}
	target := l
	if c.Node == "follower" {
		target = f
	}
	q := "?level=" + c.Level
	if c.Tx {
		q += "&transaction"
	}
	var method, path string
	var body []byte
	hdr := map[string]string{}
	ep := c.EP
	if ep == "qget" && (len(t.Params) > 0 || len(t.Pre) > 0) {
		ep = "qpost" // parameters and several statements need a body
	}
	switch ep {
	case "qget":
		method, path = "GET", "/db/query"+q+"&q="+url.QueryEscape(t.SQL)
		res.Judged, res.Why = true, "query endpoint"
	case "qpost":
		method, path = "POST", "/db/query"+q
		if len(t.Params) == 0 && len(t.Pre) == 0 && (t.No+len(t.SQL))%4 == 0 {
			body = []byte(t.SQL)
			hdr["Content-Type"] = "text/plain"
			h.counts["req:query-text-plain"]++
		} else {
			body, _ = json.Marshal(items(t))
		}
		res.Judged, res.Why = true, "query endpoint"
	case "request":
		method, path = "POST", "/db/request"+q
		body, _ = json.Marshal(items(t))
		res.Classes = classify(l, sqls(t))
		if res.Classes == strings.Repeat("R", len(t.Pre)+1) {
			res.Judged, res.Why = true, "unified request, the statement is treated as read-only"
		} else {
			res.Why = "unified request, the statement is treated as a write"
		}
	case "mixed":
		method, path = "POST", "/db/request"+q
		if t.No%2 == 0 {
			body, _ = json.Marshal(append([]any{noopWrite}, items(t)...))
			res.Classes = classify(l, append([]string{noopWrite}, sqls(t)...))
		} else {
			body, _ = json.Marshal(append(items(t), noopWrite))
			res.Classes = classify(l, append(sqls(t), noopWrite))
		}
		if strings.Count(res.Classes, "W") == 1 && strings.Count(res.Classes, "R") == len(t.Pre)+1 {
			res.Judged, res.Why = true, "unified request, the statement is treated as read-only next to the harness's own no-op write"
		} else {
			res.Why = "unified request, the statement is treated as a write"
		}
	}
	h.counts["req:"+ep]++
	h.counts["req:node:"+c.Node]++
	h.counts["req:level:"+c.Level]++
	if c.Tx {
		h.counts["req:transaction"]++
	}
	commitBefore := h.cur[l.ID].Commit

	t0 := time.Now()
	r := h.cl.Do(target, method, path, body, hdr)
	h.counts["ms:http"] += time.Since(t0).Milliseconds()
	if r.Err != nil {
		// outcome unknown and possibly still in flight: no verdict, start over from the state we find
		time.Sleep(2 * time.Second)
		h.quiesce(60 * time.Second)
		h.rebaseline()
		res.Inconcl = "transport: " + trunc(r.Err.Error(), 80)
		return res
	}
	res.Status = r.Status
	res.Reply = trunc(string(r.Body), 300)
	h.counts[fmt.Sprintf("status:%d", r.Status)]++
	if a, err := r.Parse(); err == nil {
		shaped := len(a.Results) > 0
		for _, x := range a.Results {
			if x.Error != "" {
				res.ErrInBody = true
			}
			if x.Columns == nil && len(x.Rows) == 0 {
				shaped = false
			}
		}
		if a.Error != "" {
			res.ErrInBody = true
		}
		res.QShaped = shaped && !res.ErrInBody
	}
	if r.Status >= 500 || strings.Contains(strings.ToLower(res.Reply), "timeout") {
		// the node gave up on the request (time-out, lost leadership…): it may still be
		// on its way through the log, so there is no clean before/after window
		h.counts["reply:5xx-or-timeout"]++
		time.Sleep(time.Second)
		h.quiesce(60 * time.Second)
		h.rebaseline()
		res.Inconcl = fmt.Sprintf("request gave up: HTTP %d %s", r.Status, trunc(res.Reply, 60))
		return res
	}
	if res.ErrInBody {
		h.counts["reply:error"]++
	} else if r.Status == 200 {
		h.counts["reply:ok"]++
	}

	if ci, _ := l.Store.CommitIndex(); ci != commitBefore {
		res.ViaLog = true
		h.counts["via_log"]++
	}
	// only a request that reached the log can still be in progress on a follower
	t0 = time.Now()
	if res.ViaLog && !h.quiesce(60*time.Second) {
		h.rebaseline()
		res.Inconcl = "nodes did not quiesce within 60 s"
		return res
	}
	h.counts["ms:quiesce"] += time.Since(t0).Milliseconds()
	t0 = time.Now()
	ch, err := h.observe()
	h.counts["ms:observe"] += time.Since(t0).Milliseconds()
	if err != nil {
		res.Inconcl = "observe: " + err.Error()
		h.rebaseline()
		return res
	}
	res.Changes = ch
	if len(ch) > 0 && !res.Judged {
		h.counts["accepted_changes_by_writes"]++
	}

	// A transaction left open by the text must not outlive the case: on the
	// read-write connection it would hide every later change from the files, on a
	// pooled read-only connection it pins the WAL (snapshots then fail with
	// "checkpoint busy"). Close it the way it was opened and fold whatever that
	// does into this request's effects.
	if t.TxnCtl {
		if ep == "request" || ep == "mixed" {
			if ll := h.cl.WaitLeader(60 * time.Second); ll != nil {
				h.cl.PostJSON(ll, "/db/execute", []any{"ROLLBACK"})
			}
		} else {
			h.cl.Do(target, "GET", "/db/query?level="+c.Level+"&q=ROLLBACK", nil, nil)
		}
		h.counts["harness_rollbacks"]++
		h.quiesce(60 * time.Second)
		if post, err := h.observe(); err == nil && len(post) > 0 {
			res.Changes = append(res.Changes, post...)
		}
	}
	return res
}

// compact keeps the WAL files small (the harness cluster takes no automatic
// snapshots, so accepted writes only ever append): an explicit snapshot on every
// node, between two texts, then a fresh baseline.
func (h *harness) compact() error {
	big := false
	for _, n := range h.nodes {
		if h.cur[n.ID].WALSize > 300<<10 {
			big = true
		}
	}
	if !big {
		return nil
	}
	for _, n := range h.nodes {
		if err := n.Store.Snapshot(0); err != nil {
			h.counts["harness_snapshot_errors"]++
			fmt.Fprintf(os.Stderr, "C17 harness snapshot on %s: %v\n", n.ID, err)
		}
	}
	h.counts["harness_snapshots"]++
	return h.rebaseline()
}

// topUp keeps enough rows in t1 for UPDATE/DELETE texts to stay observable.
func (h *harness) topUp(next *int) error {
	d := h.dumps["n1"]
	if d == nil || len(d.Tables["t1"]) >= 20 {
		return nil
	}
	if err := h.exec(seedRows(*next, 30)); err != nil {
		return err
	}
	*next += 30
	if !h.quiesce(60 * time.Second) {
		return fmt.Errorf("no quiescence after top-up")
	}
	h.counts["top_ups"]++
	return h.rebaseline()
}

// worker args: lo hi seed tier dir ncombos nguard   |   replay <file> dir
func worker(args []string) {
	enc := json.NewEncoder(os.Stdout)
	var texts []Text
	var combos [][]Combo
	var dir string
	if args[0] == "replay" {
		b, err := os.ReadFile(args[1])
		if err != nil {
			enc.Encode(workerOut{SetupErr: err.Error()})
			return
		}
		var f struct {
			Case struct {
				Text Text      `json:"text"`
				Req  ReqResult `json:"req"`
			} `json:"case"`
		}
		if err := json.Unmarshal(b, &f); err != nil {
			enc.Encode(workerOut{SetupErr: err.Error()})
			return
		}
		texts = []Text{f.Case.Text}
		combos = [][]Combo{{f.Case.Req.Combo}}
		dir = args[2]
	} else {
		var lo, hi, nc, ng int
		var seed int64
		fmt.Sscan(args[0], &lo)
		fmt.Sscan(args[1], &hi)
		fmt.Sscan(args[2], &seed)
		fmt.Sscan(args[5], &nc)
		dir = args[4]
		c := &vf.Ctx{ID: "C17", Seed: seed, Tier: args[3]}
		if len(args) > 6 {
			fmt.Sscan(args[6], &ng)
		}
		// ng guard-off texts (numbered guardBase+lo+j) are spread evenly between the
		// batch's ordinary texts, so that whatever they leave behind on a pooled
		// connection meets the ordinary texts that follow
		every, g := 0, 0
		if ng > 0 {
			every = (hi - lo) / (ng + 1)
			if every < 1 {
				every = 1
			}
		}
		for i := lo; i < hi; i++ {
			r := c.Rand(uint64(i))
			texts = append(texts, genText(r, i, filepath.Join(dir, "att")))
			combos = append(combos, pickCombos(r, nc))
			if g < ng && (i-lo+1)%every == 0 {
				no := guardBase + lo + g
				gr := c.Rand(uint64(no))
				texts = append(texts, genGuardText(gr, no))
				combos = append(combos, pickCombos(gr, nc))
				g++
			}
		}
	}
	os.MkdirAll(dir, 0755)
	h, err := startCluster(dir)
	if err != nil {
		enc.Encode(workerOut{SetupErr: "cluster start: " + err.Error()})
		return
	}
	defer h.cl.Close()
	nextSeed := 1000
	for i := range texts {
		tr := &TextResult{Text: texts[i]}
		h.counts = map[string]int64{}
		if err := h.compact(); err != nil {
			tr.Aborted = "compact: " + err.Error()
		}
		for _, c := range combos[i] {
			if tr.Aborted != "" {
				break
			}
			if err := h.topUp(&nextSeed); err != nil {
				tr.Aborted = "top-up: " + err.Error()
				break
			}
			tr.Reqs = append(tr.Reqs, h.run(&texts[i], c))
		}
		tr.Counts = h.counts
		enc.Encode(workerOut{Result: tr})
		if tr.Aborted != "" {
			return
		}
	}
	// what the ATTACH / VACUUM INTO texts left on disk (evidence only)
	files, _ := filepath.Glob(filepath.Join(h.attDir, "*"))
	enc.Encode(workerOut{Final: map[string]any{"files_created_by_attach_or_vacuum_into": len(files)}})
}
