// Package c06: incremental WAL segments stay correct under busy and partial
// checkpoints (DESIGN §6 C06).
//
// A seeded (and, for short lengths, exhaustive) set of schedules over
// {write txn, reader start/stop, checkpoint attempt with reader actions at the
// ckpt.after_compact / ckpt.after_sqlite hook points, VACUUM, nil-writer
// attempt} runs against a real db.SwappableDB. Every successful attempt's
// segment is applied with plain SQLite to a shadow database that started as the
// previous snapshot; shadow and live database must then be identical.
package c06

import (
	"encoding/json"
	"fmt"
	"os"
	"path/filepath"
	"strings"
	"sync"
	"time"

	"verif/internal/vf"
)

func init() { vf.Register("C06", "exploration", run) }

func genRandom(c *vf.Ctx, no, length, nReaders int) *schedule {
	r := c.Rand(uint64(no) + 1)
	s := &schedule{No: no, Kind: "random", Seed: r.Uint64()}
	w := func() step {
		st := step{Op: "W", N: 1 + r.IntN(40)}
		switch y := r.IntN(10); {
		case y < 6:
			st.K = 0
		case y < 9:
			st.K = 1
		default:
			st.K = 2
		}
		return st
	}
	for len(s.Steps) < length {
		x := r.IntN(100)
		if no%2 == 1 && x < 30 {
			// motifs that drive the manager through its three outcomes and
			// the reset-vs-append fork; the surrounding random steps vary
			// which readers exist at each point
			k := r.IntN(nReaders)
			switch r.IntN(6) {
			case 0: // all moved, not truncated; reader leaves; next write resets the WAL
				s.Steps = append(s.Steps, w(), step{Op: "RS", R: k}, step{Op: "C"}, step{Op: "RE", R: k}, w(), step{Op: "C"})
			case 1: // all moved, not truncated; reader stays; next write appends
				s.Steps = append(s.Steps, w(), step{Op: "RS", R: k}, step{Op: "C"}, w(), step{Op: "C"}, step{Op: "RE", R: k}, step{Op: "C"})
			case 2: // reader appears between compaction and SQLite's checkpoint, leaves right after it
				s.Steps = append(s.Steps, w(), step{Op: "C", HC: "start", HR: k, HS: "stop", SR: k}, w(), step{Op: "C"})
			case 3: // reader appears between compaction and checkpoint and stays
				s.Steps = append(s.Steps, w(), step{Op: "C", HC: "start", HR: k}, w(), w(), step{Op: "C"})
			case 4: // old reader: some pages moved only
				s.Steps = append(s.Steps, w(), step{Op: "RS", R: k}, w(), step{Op: "C"}, step{Op: "C", HC: "stop", HR: k})
			default: // reader started on a fully backfilled WAL (reads the database file directly)
				s.Steps = append(s.Steps, w(), step{Op: "C", HC: "start", HR: k, HS: "stop", SR: k}, step{Op: "RS", R: k}, w(), step{Op: "C"}, step{Op: "RE", R: k})
			}
			continue
		}
		switch {
		case x < 38:
			st := step{Op: "W", N: 1 + r.IntN(40)}
			switch y := r.IntN(10); {
			case y < 6:
				st.K = 0
			case y < 9:
				st.K = 1
			default:
				st.K = 2
			}
			s.Steps = append(s.Steps, st)
		case x < 53:
			s.Steps = append(s.Steps, step{Op: "RS", R: r.IntN(nReaders)})
		case x < 65:
			s.Steps = append(s.Steps, step{Op: "RE", R: r.IntN(nReaders)})
		case x < 94:
			st := step{Op: "C"}
			switch y := r.IntN(100); {
			case y < 25:
				st.HC, st.HR = "start", r.IntN(nReaders)
			case y < 40:
				st.HC, st.HR = "stop", r.IntN(nReaders)
			}
			switch y := r.IntN(100); {
			case y < 20:
				st.HS, st.SR = "start", r.IntN(nReaders)
			case y < 42:
				st.HS, st.SR = "stop", r.IntN(nReaders)
			}
			s.Steps = append(s.Steps, st)
		case x < 97:
			s.Steps = append(s.Steps, step{Op: "V"})
		default:
			s.Steps = append(s.Steps, step{Op: "F"})
		}
	}
	return s
}

// genExhaustive enumerates every word of the given length over the alphabet
// W (write), A (toggle reader 0), B (toggle reader 1), C (attempt).
func genExhaustive(c *vf.Ctx, maxLen int, startNo int) []*schedule {
	var out []*schedule
	letters := "WABC"
	no := startNo
	for l := 1; l <= maxLen; l++ {
		total := 1
		for i := 0; i < l; i++ {
			total *= 4
		}
		for w := 0; w < total; w++ {
			word := make([]byte, l)
			x := w
			for i := 0; i < l; i++ {
				word[i] = letters[x%4]
				x /= 4
			}
			ws := string(word)
			// words without an attempt after a write only exercise the closing attempt
			s := &schedule{No: no, Kind: "word:" + ws, Seed: c.Rand(uint64(1<<40) + uint64(no)).Uint64()}
			on := [2]bool{}
			for i := 0; i < l; i++ {
				switch word[i] {
				case 'W':
					s.Steps = append(s.Steps, step{Op: "W", N: 1 + (i*7+w)%23, K: (w + i) % 2})
				case 'A', 'B':
					k := int(word[i] - 'A')
					if on[k] {
						s.Steps = append(s.Steps, step{Op: "RE", R: k})
					} else {
						s.Steps = append(s.Steps, step{Op: "RS", R: k})
					}
					on[k] = !on[k]
				case 'C':
					s.Steps = append(s.Steps, step{Op: "C"})
				}
			}
			out = append(out, s)
			no++
		}
	}
	return out
}

func run(c *vf.Ctx) {
	c.Rule("a case = one schedule run against a fresh db.OpenSwappable database: 160 (quick) / 3000 (thorough) random schedules of 12 (quick) / 16 (thorough) steps over {write txn of 1-40 rows (insert/update/delete), reader start, reader stop, incremental checkpoint attempt optionally starting/stopping a reader at ckpt.after_compact and/or ckpt.after_sqlite, VACUUM, nil-writer attempt} with up to 3 harness-owned readers, plus every word of length <=4 (quick) / <=6 (thorough) over {W, toggle reader 0, toggle reader 1, C}; each schedule ends with all readers stopped and a closing attempt. Store level: 8 (quick) / 120 (thorough) schedules of 7/12 rounds on a real single-node Store: 1-3 write transactions, harness readers placed before the last write and/or after all writes, Store.Snapshot(0), readers released or kept; at the end the node is restarted from its snapshot store. non-trivial = the schedule produced at least one blocked outcome (busy, or all pages moved but WAL not truncated) and a later successful attempt was compared; distinct by (steps, outcomes)")
	c.Assume("plain SQLite (stock driver) checkpointing a captured segment onto the previous snapshot is the reference for what the segment contains; readers are harness-owned connections on the same file in the same process; no write runs concurrently with an attempt (the manager's stated contract); after a failed nil-writer (full snapshot) attempt every following attempt is a nil-writer attempt until one succeeds, as the store keeps a full snapshot due")
	c.Assume("timing: blocked attempts wait a 25 ms busy timeout; outcomes are decided by which readers exist, not by the clock")

	tmp := vf.TempDir("c06")
	defer os.RemoveAll(tmp)
	// The databases live on a memory file system when there is one: the
	// manager switches SQLite to synchronous=FULL for every attempt and fsync
	// latency on a shared disk dominates otherwise (durability is not what this
	// property is about).
	work := tmp
	if d, err := os.MkdirTemp("/dev/shm", "verif-c06-"); err == nil {
		work = d
		defer os.RemoveAll(d)
	}

	var scheds []*schedule
	nRand := c.N(160, 3000)
	length := c.N(12, 16)
	for i := 0; i < nRand; i++ {
		nr := 2
		if i%3 == 2 {
			nr = 3
		}
		scheds = append(scheds, genRandom(c, i, length, nr))
	}
	maxWord := c.N(4, 6)
	ex := genExhaustive(c, maxWord, nRand)
	scheds = append(scheds, ex...)
	c.Extra("exhaustive_subspace", fmt.Sprintf("all %d words of length <=%d over {W,A,B,C}", len(ex), maxWord))

	nw := 4
	jobs := make(chan *schedule, 16)
	var wg sync.WaitGroup
	var smu sync.Mutex
	samples := 0
	outcomeSeqs := map[string]int{}
	for w := 0; w < nw; w++ {
		wg.Add(1)
		go func(w int) {
			defer wg.Done()
			logPath := filepath.Join(tmp, fmt.Sprintf("worker%d.log", w))
			var p *vf.Proc
			start := func() bool {
				var err error
				p, err = vf.StartWorker(false, "c06", nil, []string{"TMPDIR=" + work}, logPath)
				if err != nil {
					c.Logf("start worker: %v", err)
					return false
				}
				return true
			}
			if !start() {
				for range jobs {
					c.Inconclusive("worker could not be started")
				}
				return
			}
			defer func() { p.Kill() }()
			cmdLog, _ := os.OpenFile(filepath.Join(tmp, fmt.Sprintf("cmds%d.log", w)), os.O_CREATE|os.O_WRONLY|os.O_APPEND, 0644)
			defer cmdLog.Close()
			for s := range jobs {
				b, _ := json.Marshal(s)
				fmt.Fprintf(cmdLog, "%s\n", b)
				var res result
				err := p.Call(s, &res, 90*time.Second)
				c.Eval(1)
				if err != nil {
					c.Inconclusive("worker " + err.Error())
					c.Logf("schedule %d: %v (see %s)", s.No, err, logPath)
					p.Quit()
					if !start() {
						return
					}
					continue
				}
				for k, v := range res.Counts {
					c.Count(k, v)
				}
				if res.HarnessErr != "" {
					c.Inconclusive("harness: " + firstWords(res.HarnessErr))
					c.Logf("schedule %d (%s): harness error: %s", s.No, s.Kind, res.HarnessErr)
					continue
				}
				if len(res.Viol) > 0 {
					for _, v := range res.Viol {
						c.Violation(v.Key, fmt.Sprintf("schedule %d (%s) outcomes %v: %s", s.No, s.Kind, res.Outcomes, v.What),
							map[string]any{"schedule": s, "outcomes": res.Outcomes})
					}
					continue
				}
				c.Held(1)
				blocked, later := false, false
				for _, o := range res.Outcomes {
					if o == "C:busy" || o == "C:partial" || o == "F:failed" {
						blocked = true
					} else if blocked && (o == "C:truncated" || o == "final:truncated" || o == "C:partial" || o == "F:ok" || o == "final:ok") {
						later = true
					}
				}
				var seq []string
				for _, o := range res.Outcomes {
					if strings.HasPrefix(o, "C:") || strings.HasPrefix(o, "F:") || strings.HasPrefix(o, "final:") {
						seq = append(seq, o)
					}
				}
				smu.Lock()
				outcomeSeqs[strings.Join(seq, ",")]++
				smu.Unlock()
				if blocked && later {
					c.Nontrivial(string(b) + "|" + strings.Join(res.Outcomes, ","))
					smu.Lock()
					take := samples < 5 && s.Kind == "random"
					if take {
						samples++
					}
					smu.Unlock()
					if take {
						c.Sample(map[string]any{"schedule": s, "outcomes": res.Outcomes, "counts": res.Counts})
					}
				}
			}
			p.Kill()
		}(w)
	}
	for _, s := range scheds {
		jobs <- s
	}
	close(jobs)
	wg.Wait()
	c.Extra("distinct_attempt_outcome_sequences", len(outcomeSeqs))
	runStoreLevel(c, tmp, work)
	c.Require(int64(c.N(200, 4000)), c.N(60, 1500))
	if c.Counter("store_restores_compared") < int64(c.N(4, 60)) || c.Counter("store_failed_staging_unchanged") < int64(c.N(4, 60)) ||
		c.Counter("compares") < int64(c.N(300, 6000)) || c.Counter("partial_all_moved") < 10 || c.Counter("busy") < 10 ||
		c.Counter("wal_resets_between_attempts") < 5 || c.Counter("wal_appends_between_attempts") < 5 {
		c.Inconclusive("monitor saw too few compared attempts / blocked outcomes / reset-vs-append forks")
		c.Require(1<<40, 1<<30)
	}
}

// runStoreLevel drives the store-level schedules (see storeworker.go).
func runStoreLevel(c *vf.Ctx, tmp, work string) {
	nS := c.N(8, 120)
	rounds := c.N(7, 12)
	var scheds []*storeSchedule
	for i := 0; i < nS; i++ {
		r := c.Rand(uint64(1<<41) + uint64(i))
		s := &storeSchedule{No: i, Seed: r.Uint64()}
		for j := 0; j < rounds; j++ {
			rd := storeRound{Writes: 1 + r.IntN(3), Reader: []string{"none", "old", "latest", "latest", "both"}[r.IntN(5)], Release: "after"}
			if r.IntN(3) == 0 {
				rd.Release = "keep"
			}
			s.Rounds = append(s.Rounds, rd)
		}
		scheds = append(scheds, s)
	}
	jobs := make(chan *storeSchedule, len(scheds))
	for _, s := range scheds {
		jobs <- s
	}
	close(jobs)
	var wg sync.WaitGroup
	for w := 0; w < 3; w++ {
		wg.Add(1)
		go func(w int) {
			defer wg.Done()
			logPath := filepath.Join(tmp, fmt.Sprintf("storeworker%d.log", w))
			for s := range jobs {
				// one process per schedule: a Store that hits log.Fatal must
				// not take the other schedules with it
				p, err := vf.StartWorker(false, "c06store", nil, []string{"TMPDIR=" + work}, logPath)
				if err != nil {
					c.Inconclusive("store worker could not be started")
					continue
				}
				var res result
				err = p.Call(s, &res, 180*time.Second)
				p.Kill()
				c.Eval(1)
				c.Count("store_schedules", 1)
				if err != nil {
					c.Inconclusive("store worker " + err.Error())
					c.Logf("store schedule %d: %v (see %s)", s.No, err, logPath)
					continue
				}
				for k, v := range res.Counts {
					c.Count(k, v)
				}
				if res.HarnessErr != "" {
					c.Inconclusive("store harness: " + firstWords(res.HarnessErr))
					c.Logf("store schedule %d: harness error: %s", s.No, res.HarnessErr)
					continue
				}
				if len(res.Viol) > 0 {
					for _, v := range res.Viol {
						c.Violation(v.Key, fmt.Sprintf("store schedule %d outcomes %v: %s", s.No, res.Outcomes, v.What), map[string]any{"store_schedule": s, "outcomes": res.Outcomes})
					}
					continue
				}
				c.Held(1)
				failed, ok := false, false
				for _, o := range res.Outcomes {
					if o == "S:failed" {
						failed = true
					} else if failed && (o == "S:ok" || o == "S:final-ok") {
						ok = true
					}
				}
				if failed && ok {
					b, _ := json.Marshal(s)
					c.Nontrivial("store|" + string(b) + "|" + strings.Join(res.Outcomes, ","))
				}
			}
		}(w)
	}
	wg.Wait()
}

func firstWords(s string) string {
	if i := strings.IndexAny(s, ":\n"); i > 0 {
		s = s[:i]
	}
	if len(s) > 60 {
		s = s[:60]
	}
	return s
}
