// Package c03: acknowledged writes survive crashes and restarts (DESIGN §6 C03).
package c03

import (
	"encoding/json"
	"fmt"
	"os"
	"path/filepath"
	"sort"
	"strings"
	"sync"
	"time"

	"verif/internal/nscript"
	"verif/internal/procnode"
	"verif/internal/sqlref"
	"verif/internal/vf"
)

func init() { vf.Register("C03", "fault_enumeration", run) }

// crashSpec: crash in process incarnation Inc at the K-th hit of Point.
type crashSpec struct {
	Script int    `json:"script"`
	Inc    int    `json:"incarnation"`
	Point  string `json:"point"`
	K      int64  `json:"k"`
	Kill   int    `json:"kill_after_op,omitempty"` // random SIGKILL variant: kill while op #Kill is in flight
	KillUs int    `json:"kill_delay_us,omitempty"`
}

func (s crashSpec) key() string {
	if s.Point == "" {
		return fmt.Sprintf("s%d/kill@op%d+%dus", s.Script, s.Kill, s.KillUs)
	}
	return fmt.Sprintf("s%d/inc%d/%s:%d", s.Script, s.Inc, s.Point, s.K)
}

type caseResult struct {
	Spec       crashSpec     `json:"spec"`
	Ops        []string      `json:"ops_before_crash"`
	InFlight   string        `json:"in_flight"`
	Crashed    bool          `json:"crashed"`
	Acked      nscript.Model `json:"model_acked"`
	WithInfl   nscript.Model `json:"model_with_inflight"`
	GotFast    string        `json:"state_after_restart_as_is"`
	GotRebuild string        `json:"state_after_restart_without_fingerprint"`
	Problem    string        `json:"problem,omitempty"`
	Key        string        `json:"key,omitempty"`
	Inconcl    string        `json:"inconclusive,omitempty"`
	LogTail    string        `json:"log_tail,omitempty"`
}

func tailFile(p string, n int) string {
	b, err := os.ReadFile(p)
	if err != nil {
		return err.Error()
	}
	if len(b) > n {
		b = b[len(b)-n:]
	}
	return string(b)
}

func nodeArgs() []string {
	return []string{"-raft-snap", "100000", "-raft-snap-int", "1h", "-raft-snap-wal-size", "0"}
}

func genScript(c *vf.Ctx, idx int) []nscript.Op {
	if idx == 0 {
		// fixed script covering every path once or twice
		k := []string{"init", "write", "write", "snapshot", "write", "pinned", "snapshot", "write", "write", "snapshot", "write", "snapshot", "reap",
			"write", "load", "write", "snapshot", "write", "restart", "write", "snapshot", "write", "restart-nosnap",
			"write", "boot", "write", "snapshot", "write", "snapshot", "snapshot", "reap", "write"}
		return number(k)
	}
	r := c.Rand(uint64(1000 + idx))
	kinds := []string{"write", "write", "write", "snapshot", "snapshot", "reap", "load", "boot", "restart", "restart-nosnap", "pinned"}
	k := []string{"init", "write"}
	for i := 0; i < 28; i++ {
		k = append(k, kinds[r.IntN(len(kinds))])
	}
	return number(k)
}

func number(kinds []string) []nscript.Op {
	var ops []nscript.Op
	w, l := 0, 0
	for _, k := range kinds {
		switch k {
		case "write":
			ops = append(ops, nscript.Op{Kind: k, Arg: w})
			w++
		case "load", "boot":
			ops = append(ops, nscript.Op{Kind: k, Arg: l})
			l++
		case "pinned":
			// a snapshot taken while a slow read pins the end of the WAL, and a
			// write appended to that WAL before the reader leaves
			ops = append(ops, nscript.Op{Kind: "slow-read-begin"}, nscript.Op{Kind: "snapshot"}, nscript.Op{Kind: "write", Arg: w}, nscript.Op{Kind: "slow-read-end"})
			w++
		default:
			ops = append(ops, nscript.Op{Kind: k})
		}
	}
	return ops
}

// runScript drives the script on a fresh node until the end or until the node
// dies. spec == nil is the recording run (with VERIF_TRACE).
func runScript(dir string, ops []nscript.Op, spec *crashSpec, tracePath string) (res caseResult, node *procnode.Node) {
	if spec != nil {
		res.Spec = *spec
	}
	data := filepath.Join(dir, "data")
	scratch := filepath.Join(dir, "scratch")
	os.MkdirAll(scratch, 0755)
	n := procnode.New("n1", data)
	n.Args = nodeArgs()
	inc := 0
	setEnv := func() {
		n.Env = nil
		if tracePath != "" {
			n.Env = append(n.Env, "VERIF_TRACE="+tracePath+fmt.Sprintf(".%d", inc))
		}
		if spec != nil && spec.Point != "" && spec.Inc == inc {
			n.Env = append(n.Env, fmt.Sprintf("VERIF_CRASH=%s:%d", spec.Point, spec.K))
		}
	}
	setEnv()
	if err := n.Start(); err != nil {
		res.Inconcl = "start: " + err.Error()
		return res, n
	}
	model := nscript.Model{}
	res.Acked, res.WithInfl = model, model
	died := func(op nscript.Op) {
		res.Crashed = true
		res.InFlight = op.String()
		res.Acked = model
		res.WithInfl = model.Apply(op)
	}
	if err := n.WaitReady(30 * time.Second); err != nil {
		if !n.Running() && spec != nil {
			died(nscript.Op{Kind: "startup"})
			return res, n
		}
		res.Inconcl = "ready: " + err.Error()
		n.Kill()
		return res, n
	}
	for i, op := range ops {
		if op.Kind == "restart" || op.Kind == "restart-nosnap" {
			if op.Kind == "restart" {
				if _, ok := n.Stop(40 * time.Second); !ok {
					res.Inconcl = "graceful stop timed out"
					return res, n
				}
			} else {
				n.Kill()
			}
			if code, _ := n.WaitExit(0); code == 197 {
				died(op)
				return res, n
			}
			inc++
			setEnv()
			if err := n.Start(); err != nil {
				res.Inconcl = "restart: " + err.Error()
				return res, n
			}
			if err := n.WaitReady(40 * time.Second); err != nil {
				if code, exited := n.WaitExit(0); exited && code == 197 {
					died(nscript.Op{Kind: "startup"})
					return res, n
				}
				if err == procnode.ErrPortInUse {
					res.Inconcl = "port in use"
					n.Kill()
					return res, n
				}
				res.Problem = fmt.Sprintf("node did not come back after scripted %s (op %d): %v", op.Kind, i, err)
				res.Key = "scripted-restart-failed"
				n.Kill()
				return res, n
			}
			res.Ops = append(res.Ops, op.String())
			continue
		}
		if spec != nil && spec.Point == "" && spec.Kill == i {
			// random SIGKILL while this op is in flight
			done := make(chan struct{})
			var out nscript.Outcome
			go func() { out, _ = nscript.Exec(n, op, scratch); close(done) }()
			time.Sleep(time.Duration(spec.KillUs) * time.Microsecond)
			n.Kill()
			<-done
			res.Crashed = true
			res.InFlight = op.String()
			res.Acked = model
			res.WithInfl = model.Apply(op)
			if out == nscript.Acked {
				res.Acked = res.WithInfl
			}
			return res, n
		}
		out, msg := nscript.Exec(n, op, scratch)
		switch out {
		case nscript.Acked:
			model = model.Apply(op)
			res.Ops = append(res.Ops, op.String())
		case nscript.Failed:
			// a clean failure of a scripted op on an un-crashed node
			if !n.Running() {
				died(op)
				return res, n
			}
			res.Ops = append(res.Ops, op.String()+"!failed:"+msg)
		case nscript.Unknown:
			time.Sleep(50 * time.Millisecond)
			if _, exited := n.WaitExit(2 * time.Second); exited || !n.Running() {
				died(op)
				return res, n
			}
			res.Inconcl = fmt.Sprintf("op %d %s: unknown outcome on a live node: %s", i, op, msg)
			n.Kill()
			return res, n
		}
	}
	res.Acked, res.WithInfl = model, model
	return res, n
}

// verify restarts the crash image (as is, and without the fingerprint) and
// compares the state with the model.
func verify(dir string, res *caseResult, n *procnode.Node) {
	n.Kill()
	n.Env = nil
	data := n.Dir
	// The crash image is saved and later restored to the SAME path: rqlite's
	// on-disk plans hold absolute paths, so an image is only meaningful where
	// it was produced.
	img := filepath.Join(dir, "image")
	if err := sqlref.CopyTree(data, img); err != nil {
		res.Inconcl = "copy image: " + err.Error()
		return
	}
	check := func(nd *procnode.Node, label string) string {
		if err := nd.Start(); err != nil {
			res.Inconcl = "verify start: " + err.Error()
			return ""
		}
		defer nd.Kill()
		if err := nd.WaitReady(60 * time.Second); err != nil {
			if err == procnode.ErrPortInUse {
				res.Inconcl = "port in use"
				return ""
			}
			res.Problem = fmt.Sprintf("%s: node does not become ready after the crash: %v", label, err)
			res.Key = "restart-failed:" + label
			res.LogTail = tailFile(nd.LogPath, 3000)
			return ""
		}
		got, err := nscript.ReadState(nd)
		if err != nil {
			res.Problem = fmt.Sprintf("%s: cannot read state after restart: %v", label, err)
			res.Key = "read-after-restart-failed:" + label
			return ""
		}
		if !got.Equal(res.Acked) && !got.Equal(res.WithInfl) {
			res.Problem = fmt.Sprintf("%s: state after restart {%s} is neither acked {%s} nor acked+in-flight {%s}", label, got, res.Acked, res.WithInfl)
			res.Key = "state-mismatch:" + label
			return got.String()
		}
		// still usable: one more write then read
		if got.Init {
			op := nscript.Op{Kind: "write", Arg: 900000}
			if out, msg := nscript.Exec(nd, op, dir); out != nscript.Acked {
				res.Problem = fmt.Sprintf("%s: write after restart failed: %s", label, msg)
				res.Key = "write-after-restart-failed:" + label
				return got.String()
			}
			got2, err := nscript.ReadState(nd)
			if err != nil || !got2.Equal(got.Apply(op)) {
				res.Problem = fmt.Sprintf("%s: write after restart not visible: %v {%s}", label, err, got2)
				res.Key = "write-after-restart-lost:" + label
			}
		}
		return got.String()
	}
	res.GotFast = check(n, "as-is")
	if res.Problem != "" || res.Inconcl != "" {
		return
	}
	if err := os.RemoveAll(data); err != nil {
		res.Inconcl = "restore image: " + err.Error()
		return
	}
	if err := sqlref.CopyTree(img, data); err != nil {
		res.Inconcl = "restore image: " + err.Error()
		return
	}
	os.Remove(filepath.Join(data, "clean_snapshot"))
	n2 := n
	res.GotRebuild = check(n2, "rebuild")
}

// thin keeps n specs spread evenly over the list (deterministic).
func thin(specs []crashSpec, n int) []crashSpec {
	out := make([]crashSpec, 0, n)
	for i := 0; i < n; i++ {
		out = append(out, specs[i*len(specs)/n])
	}
	return out
}

func run(c *vf.Ctx) {
	c.Rule("crash case = (script, process incarnation, hook point, hit#) or (script, SIGKILL while op i is in flight after a seeded delay); scripts mix uniquely tagged non-idempotent writes, user snapshots (full and incremental), snapshots taken while a slow background read pins the end of the WAL followed by a write appended to that WAL before the reader leaves, reaps, loads, boots, graceful and killed restarts on a single real rqlited process; a recording run with VERIF_TRACE lists every (point, hit#) reached, quick crashes at the first and one seeded later hit of every point, thorough at every hit. After each crash the image is restarted twice (as is; with clean_snapshot removed) and the state read back with a strong read must equal model(acked) or model(acked + in-flight op), and a further write must work. non-trivial = the process really exited at the requested point (exit code 197) or was killed with an op in flight; distinct by crash spec")
	c.Assume("process-crash model: os.Exit at the hook, completed write() calls survive; no power-loss / unsynced-dirent modelling")
	c.Assume("single-node cluster; minority crash of a multi-node cluster is exercised in C02/C22")
	tmp := vf.TempDir("c03")
	defer os.RemoveAll(tmp)
	if c.ReplayFile != "" {
		b, err := os.ReadFile(c.ReplayFile)
		if err != nil {
			panic(err)
		}
		var f struct {
			Case caseResult `json:"case"`
		}
		json.Unmarshal(b, &f)
		sp := f.Case.Spec
		dir := filepath.Join(tmp, "replay")
		os.MkdirAll(dir, 0755)
		res, n := runScript(dir, genScript(c, sp.Script), &sp, "")
		if res.Inconcl == "" && res.Problem == "" {
			verify(dir, &res, n)
		}
		n.Kill()
		out, _ := json.MarshalIndent(res, "", " ")
		fmt.Printf("%s\n", out)
		if os.Getenv("VERIF_KEEP") != "" {
			keep := "/tmp/c03-replay-keep"
			os.RemoveAll(keep)
			sqlref.CopyTree(dir, keep)
			fmt.Println("kept:", keep)
		}
		c.Eval(1)
		c.Nontrivial("replay")
		c.Nontrivial("replay2")
		if res.Problem != "" {
			c.Violation(res.Key+":"+sp.Point, res.Problem, res)
		}
		return
	}

	nScripts := c.N(1, 3)
	var specs []crashSpec
	scripts := map[int][]nscript.Op{}
	for si := 0; si < nScripts; si++ {
		ops := genScript(c, si)
		scripts[si] = ops
		dir := filepath.Join(tmp, fmt.Sprintf("rec%d", si))
		os.MkdirAll(dir, 0755)
		trace := filepath.Join(dir, "trace")
		res, n := runScript(dir, ops, nil, trace)
		n.Stop(30 * time.Second)
		if res.Inconcl != "" || res.Problem != "" {
			c.Logf("recording run of script %d: inconclusive=%q problem=%q ops=%v", si, res.Inconcl, res.Problem, res.Ops)
			if res.Problem != "" {
				c.Violation(res.Key, "recording run (no crash injected): "+res.Problem, res)
			} else {
				c.Inconclusive("recording run: " + res.Inconcl)
			}
			continue
		}
		// the un-crashed run must end in the model state as well
		files, _ := filepath.Glob(trace + ".*")
		sort.Strings(files)
		r := c.Rand(uint64(si))
		for _, f := range files {
			var inc int
			fmt.Sscanf(filepath.Ext(f), ".%d", &inc)
			hits, _ := procnode.ReadTrace(f)
			maxHit := map[string]int64{}
			for _, h := range hits {
				if h.Hit > maxHit[h.Name] {
					maxHit[h.Name] = h.Hit
				}
			}
			c.Count("hook_hits_recorded", int64(len(hits)))
			names := make([]string, 0, len(maxHit))
			for nme := range maxHit {
				names = append(names, nme)
			}
			sort.Strings(names)
			for _, nme := range names {
				c.Count("distinct_points", 1)
				if c.Quick() {
					specs = append(specs, crashSpec{Script: si, Inc: inc, Point: nme, K: 1})
					if maxHit[nme] > 1 {
						specs = append(specs, crashSpec{Script: si, Inc: inc, Point: nme, K: 2 + r.Int64N(maxHit[nme]-1)})
					}
				} else {
					for k := int64(1); k <= maxHit[nme]; k++ {
						specs = append(specs, crashSpec{Script: si, Inc: inc, Point: nme, K: k})
					}
				}
			}
		}
		nk := c.N(6, 40)
		for i := 0; i < nk; i++ {
			opi := 1 + r.IntN(len(ops)-1)
			if ops[opi].Kind == "restart" || ops[opi].Kind == "restart-nosnap" {
				opi--
			}
			specs = append(specs, crashSpec{Script: si, Kill: opi, KillUs: r.IntN(30000)})
		}
		os.RemoveAll(dir)
	}
	if c.Quick() && len(specs) > 64 {
		// keep quick bounded: deterministic thinning of repeated fsm.apply hits etc.
		specs = thin(specs, 64)
	}
	c.Logf("%d crash cases", len(specs))
	sem := make(chan struct{}, 14)
	var wg sync.WaitGroup
	results := make([]caseResult, len(specs))
	for i := range specs {
		wg.Add(1)
		go func(i int) {
			defer wg.Done()
			sem <- struct{}{}
			defer func() { <-sem }()
			dir := filepath.Join(tmp, fmt.Sprintf("case%d", i))
			os.MkdirAll(dir, 0755)
			defer os.RemoveAll(dir)
			sp := specs[i]
			res, n := runScript(dir, scripts[sp.Script], &sp, "")
			if res.Inconcl == "" && res.Problem == "" {
				verify(dir, &res, n)
			}
			n.Kill()
			results[i] = res
		}(i)
	}
	wg.Wait()
	for _, res := range results {
		c.Eval(1)
		if res.Inconcl != "" {
			c.Inconclusive(strings.SplitN(res.Inconcl, ":", 2)[0])
			continue
		}
		if res.Crashed {
			c.Nontrivial(res.Spec.key())
			c.Count("crashes_observed", 1)
			if res.Spec.Point != "" {
				c.Count("crash@"+res.Spec.Point, 1)
			}
		} else {
			c.Count("crash_point_not_reached", 1)
		}
		if res.Problem != "" {
			key := res.Key
			if res.Spec.Point != "" {
				key += ":" + res.Spec.Point
			} else {
				key += ":sigkill-during:" + strings.SplitN(res.InFlight, "(", 2)[0]
			}
			b, _ := json.Marshal(res)
			c.Violation(key, fmt.Sprintf("crash %s, in flight %s: %s", res.Spec.key(), res.InFlight, res.Problem), json.RawMessage(b))
			continue
		}
		c.Held(1)
		c.Sample(res)
	}
	c.Require(int64(len(specs)/2), 10)
}
