package c14

import (
	"fmt"
	"math/rand/v2"
	"strconv"
	"time"

	"verif/internal/vf"
)

// c14dbg: development aid — renders n specs and reports the ones SQLite
// rejects (original or pinned rendering). Not used by the check.
func init() {
	vf.RegisterWorker("c14dbg", func(args []string) {
		n, _ := strconv.Atoi(args[0])
		ev, err := newEvaluator()
		if err != nil {
			panic(err)
		}
		bad := map[string]int{}
		sys := systematic()
		fmt.Printf("systematic specs: %d\n", len(sys))
		for i := 0; i < n+len(sys); i++ {
			var sp *spec
			if i < len(sys) {
				sp = sys[i]
			} else {
				sp = genSpec(rand.New(rand.NewPCG(uint64(i), 99)))
			}
			for _, pin := range []bool{false, true} {
				rd := render(sp, pin, time.Now().UnixMilli())
				o := ev.eval(item{SQL: rd.SQL, Params: rd.Params, Mode: rd.Mode})
				if o.Err != "" {
					bad[o.Err]++
					if bad[o.Err] <= 2 {
						fmt.Printf("ERR %s\n   %s\n   sig=%s\n", o.Err, rd.SQL, sp.sig())
					}
				}
				if len(args) > 1 && i < 40 && !pin {
					fmt.Printf("%s\n", rd.SQL)
				}
			}
		}
		fmt.Printf("distinct errors: %d\n", len(bad))
		for k, v := range bad {
			fmt.Printf("%6d %s\n", v, k)
		}
	})
}
