package c14

import (
	"fmt"
	"math/rand/v2"
	"sort"
	"strings"
	"time"
)

// ---------------------------------------------------------------------------
// Statement specifications. A statement is generated as a *spec* (structured
// data); the SQL text is a pure function of the spec. That lets the same spec
// be rendered as the original text and as a "pinned" reference (every 'now'
// replaced by a concrete ISO-8601 literal for a chosen instant), and lets a
// failing spec be reduced feature by feature to find the construct that is
// responsible (finding key).
// ---------------------------------------------------------------------------

// cell comparison modes
const (
	mExact = 0 // cell must be equal
	mRand  = 1 // raw random value: equal across evaluations of the REWRITTEN text, shape-equal vs. the reference
	mND    = 2 // documented exclusion (randomblob(expr), CURRENT_*): shape only, always
)

type call struct {
	Fn   string   `json:"fn"`             // random randomblob date time datetime julianday unixepoch strftime timediff
	Form string   `json:"form,omitempty"` // time: implicit now NOW Now dqnow paren param lit col | randomblob: lit expr col
	N    int      `json:"n,omitempty"`    // randomblob length / literal-time index
	Fmt  string   `json:"fmt,omitempty"`  // strftime format
	Mods []string `json:"mods,omitempty"`
	Side int      `json:"side,omitempty"` // timediff: 0 now first, 1 now second, 2 both
	Case int      `json:"case,omitempty"` // 0 lower 1 UPPER 2 Mixed
	Gap  string   `json:"gap,omitempty"`  // text between the name and '('
	Wrap string   `json:"wrap,omitempty"` // expression wrapped around the call ("" = plain / role default)
	Pos  string   `json:"pos"`            // slot in the statement skeleton
	Dead bool     `json:"dead,omitempty"` // replaced by a constant (reduction only)
}

type spec struct {
	Kind  string   `json:"kind"` // select insert insert-select upsert update delete values
	Calls []call   `json:"calls"`
	Feats []string `json:"feats,omitempty"`
	Ret   int      `json:"ret,omitempty"` // write kinds: 0 none, 1 RETURNING list, 2 RETURNING *
}

func (s *spec) clone() *spec {
	o := *s
	o.Calls = make([]call, len(s.Calls))
	for i := range s.Calls {
		o.Calls[i] = s.Calls[i]
		o.Calls[i].Mods = append([]string(nil), s.Calls[i].Mods...)
	}
	o.Feats = append([]string(nil), s.Feats...)
	return &o
}

func (s *spec) has(f string) bool {
	for _, x := range s.Feats {
		if x == f {
			return true
		}
	}
	return false
}

func isTimeFn(fn string) bool {
	switch fn {
	case "date", "time", "datetime", "julianday", "unixepoch", "strftime", "timediff":
		return true
	}
	return false
}

// nowForm: the call's time value is 'now' (explicitly or implicitly).
func (c *call) nowForm() bool {
	if c.Dead || !isTimeFn(c.Fn) {
		return false
	}
	switch c.Form {
	case "implicit", "now", "NOW", "Now", "dqnow", "paren", "param":
		return true
	}
	return false
}

// claimed: the property says this call is replaced by a concrete value.
func (c *call) claimed() bool {
	if c.Dead {
		return false
	}
	switch c.Fn {
	case "random":
		return c.Pos != "orderby"
	case "randomblob":
		return c.Form == "lit" && c.Pos != "orderby"
	}
	return c.nowForm()
}

// excludedND: documented exclusion that stays non-deterministic.
func (c *call) excludedND() bool {
	if c.Dead {
		return false
	}
	switch c.Fn {
	case "random":
		return c.Pos == "orderby"
	case "randomblob":
		return c.Form != "lit" || c.Pos == "orderby"
	}
	return false
}

type param struct {
	Name string `json:"name,omitempty"`
	S    string `json:"s,omitempty"`
	I    int64  `json:"i,omitempty"`
	IsS  bool   `json:"is_s,omitempty"`
}

type rendered struct {
	SQL      string
	Params   []param
	Mode     string // "q" query / "x" exec
	Ordered  bool   // result order is fixed by a total ORDER BY
	ResModes []int
	TabModes map[string][]int // per table, per column
	NowCalls int
}

var litTimes = []string{
	"'2024-03-10 12:34:56'", "'2019-12-31'", "'2000-02-29T23:59:59.750'", "2460000.5", "'1700000000'", "'12:00'",
}

var tCols = []string{"id", "a", "b", "c", "d", "e", "ts"}
var uCols = []string{"k", "v", "n"}

func iso(ms int64) string {
	return time.UnixMilli(ms).UTC().Format("2006-01-02 15:04:05.000")
}

type rctx struct {
	sp     *spec
	pin    bool
	T      int64
	params []param
	nowN   int
	qstyle int
}

func (rc *rctx) q(id string) string {
	switch rc.qstyle {
	case 1:
		return `"` + id + `"`
	case 2:
		return "[" + id + "]"
	case 3:
		return "`" + id + "`"
	}
	return id
}

func (rc *rctx) addParam(p param) string {
	rc.params = append(rc.params, p)
	return fmt.Sprintf("\x00P%d\x00", len(rc.params)-1)
}

func applyCase(s string, k int) string {
	switch k {
	case 1:
		return strings.ToUpper(s)
	case 2:
		b := []byte(s)
		for i := range b {
			if i%2 == 0 {
				b[i] = strings.ToUpper(string(b[i]))[0]
			}
		}
		return string(b)
	}
	return s
}

// nowArg renders the time-value argument of a now-form call.
func (rc *rctx) nowArg(c *call) string {
	rc.nowN++
	if rc.pin {
		if c.Form == "param" {
			return rc.addParam(param{S: iso(rc.T), IsS: true})
		}
		if c.Form == "paren" {
			return "('" + iso(rc.T) + "')"
		}
		return "'" + iso(rc.T) + "'"
	}
	switch c.Form {
	case "NOW":
		return "'NOW'"
	case "Now":
		return "'Now'"
	case "dqnow":
		return `"now"`
	case "paren":
		return "('now')"
	case "param":
		return rc.addParam(param{S: "now", IsS: true})
	}
	return "'now'"
}

// callText renders the bare call and its cell mode.
func (rc *rctx) callText(c *call) (string, int) {
	if c.Dead {
		switch c.Fn {
		case "random":
			return "12345", mExact
		case "randomblob":
			return "x'01020304'", mExact
		}
		return "'2001-02-03 04:05:06'", mExact
	}
	name := applyCase(c.Fn, c.Case) + c.Gap
	switch c.Fn {
	case "random":
		return name + "()", mRand
	case "randomblob":
		switch c.Form {
		case "expr":
			return fmt.Sprintf("%s(%d + 1)", name, c.N), mND
		case "col":
			return name + "(id)", mND
		}
		return fmt.Sprintf("%s(%d)", name, c.N), mRand
	}
	var args []string
	mods := func() {
		for _, m := range c.Mods {
			args = append(args, "'"+m+"'")
		}
	}
	tv := func() string {
		switch c.Form {
		case "lit":
			return litTimes[c.N%len(litTimes)]
		case "col":
			return "ts"
		}
		return rc.nowArg(c)
	}
	switch c.Fn {
	case "strftime":
		args = append(args, "'"+c.Fmt+"'")
		if c.Form == "implicit" {
			if rc.pin {
				args = append(args, rc.nowArg(c))
			} else {
				rc.nowN++
			}
		} else {
			args = append(args, tv())
			mods()
		}
	case "timediff":
		other := litTimes[c.N%3]
		switch c.Side {
		case 1:
			args = append(args, other, tv())
		case 2:
			args = append(args, tv(), tv())
		default:
			args = append(args, tv(), other)
		}
	default:
		if c.Form == "implicit" {
			if rc.pin {
				args = append(args, rc.nowArg(c))
			} else {
				rc.nowN++
			}
		} else {
			args = append(args, tv())
			mods()
		}
	}
	return name + "(" + strings.Join(args, ", ") + ")", mExact
}

var (
	timeOutWraps  = []string{"", "concat", "coalesce", "case", "cast", "upper", "paren", "isnull", "substr", "cmp", "plus1"}
	randRawWraps  = []string{"", "mod", "neg", "paren", "div"}
	randExWraps   = []string{"typeof", "notnull", "and0", "mul0", "modlt", "casegt", "between64", "coalesce0"}
	blobRawWraps  = []string{"", "hex", "lowerhex", "paren"}
	blobExWraps   = []string{"length", "typeof", "lenhex"}
	timeCondWraps = []string{"", "notnull", "lt", "gt", "ne"}
)

func inList(l []string, s string) bool {
	for _, x := range l {
		if x == s {
			return true
		}
	}
	return false
}

// out renders the call wrapped for a value position.
func (rc *rctx) out(c *call) (string, int) {
	x, m := rc.callText(c)
	if c.Dead {
		return x, mExact
	}
	w := c.Wrap
	switch c.Fn {
	case "random":
		switch w {
		case "mod":
			return x + " % 1000", m
		case "neg":
			return "-" + x, m
		case "paren":
			return "(" + x + ")", m
		case "div":
			return x + " / 7", m
		case "":
			return x, m
		}
		return rc.randExact(x, w), mExact
	case "randomblob":
		switch w {
		case "hex":
			return "hex(" + x + ")", m
		case "lowerhex":
			return "lower(hex(" + x + "))", m
		case "paren":
			return "(" + x + ")", m
		case "length":
			return "length(" + x + ")", mExact
		case "typeof":
			return "typeof(" + x + ")", mExact
		case "lenhex":
			return "length(hex(" + x + "))", mExact
		}
		return x, m
	}
	switch w {
	case "concat":
		return "'p' || " + x, m
	case "coalesce":
		return "coalesce(" + x + ", 'z')", m
	case "case":
		return "CASE WHEN 1 > 0 THEN " + x + " ELSE 'n' END", m
	case "cast":
		return "CAST(" + x + " AS TEXT)", m
	case "upper":
		return "upper(" + x + ")", m
	case "paren":
		return "(" + x + ")", m
	case "isnull":
		return x + " IS NULL", m
	case "substr":
		return "substr(" + x + ", 1, 7)", m
	case "cmp":
		return x + " > '2000-01-01'", m
	case "plus1":
		return x + " + 1", m
	}
	return x, m
}

func (rc *rctx) randExact(x, w string) string {
	switch w {
	case "notnull":
		return x + " IS NOT NULL"
	case "and0":
		return "(" + x + " & 0)"
	case "mul0":
		return x + " * 0"
	case "modlt":
		return "abs(" + x + " % 5) < 5"
	case "casegt":
		return "CASE WHEN " + x + " > 0 THEN 'y' ELSE 'y' END"
	case "between64":
		return x + " BETWEEN -9223372036854775807 - 1 AND 9223372036854775807"
	case "coalesce0":
		return "coalesce(" + x + ", 0) * 0 + 3"
	}
	return "typeof(" + x + ")"
}

// cond renders the call as a condition whose truth does not depend on the
// random value (time calls may select different rows; that is compared).
func (rc *rctx) cond(c *call) string {
	x, _ := rc.callText(c)
	if c.Dead {
		return x + " IS NOT NULL"
	}
	switch c.Fn {
	case "random":
		w := c.Wrap
		if !inList(randExWraps, w) {
			w = "and0"
		}
		return "(" + rc.randExact(x, w) + ") IS NOT NULL"
	case "randomblob":
		return "length(" + x + ") > 0"
	}
	switch c.Wrap {
	case "lt":
		return "ts < " + x
	case "gt":
		return x + " > '2000-01-01'"
	case "ne":
		return "b <> " + x
	case "notnull":
		return x + " IS NOT NULL"
	}
	// default: true under the real clock, false three years earlier
	return x + " > '2025-01-01'"
}

// ord renders the call as an ORDER BY term. A constant term would not
// influence the result, so a time value is compared with the row's ts column:
// the order of the rows then depends on the clock unless the call was replaced.
func (rc *rctx) ord(c *call) string {
	if c.Dead || !isTimeFn(c.Fn) {
		x, _ := rc.out(c)
		return x
	}
	x, _ := rc.callText(c)
	return "ts < " + x
}

// intx renders an integer expression that is always 0.
func (rc *rctx) intx(c *call) string {
	x, _ := rc.callText(c)
	if c.Dead {
		return "(" + x + " IS NULL)"
	}
	switch c.Fn {
	case "random":
		if c.Wrap == "mul0" {
			return "(" + x + " * 0)"
		}
		return "(" + x + " & 0)"
	case "randomblob":
		return "(length(" + x + ") * 0)"
	}
	// 0 or 1 depending on the clock: visible in the row count
	return "coalesce(" + x + " > '2025-01-01', 0)"
}

// ---------------------------------------------------------------------------
// Features: syntactic constructs placed next to the calls. Each is a tag; the
// reduction removes them one by one.
// ---------------------------------------------------------------------------

type featDef struct {
	tag   string
	where string // condition on table t (select / insert-select / update / delete)
	item  string // result column on table t (select items, RETURNING list of t)
	mode  int
	kinds string // "" = any kind the slot exists in; else space separated kinds (structural features)
}

var featDefs = []featDef{
	{tag: "between", where: "a BETWEEN -100 AND 100"},
	{tag: "between-or", where: "a BETWEEN -100 AND 100 OR a IS NULL"},
	{tag: "between-and", where: "a BETWEEN -100 AND 100 AND id > 0"},
	{tag: "not-between", where: "a NOT BETWEEN 1000 AND 2000"},
	{tag: "like", where: "b LIKE '%'"},
	{tag: "not-like", where: "b NOT LIKE 'zz%'"},
	{tag: "like-escape", where: `b LIKE '%' ESCAPE '\'`},
	{tag: "glob", where: "b GLOB '*'"},
	{tag: "in-list", where: "id IN (1, 2, 3, 4, 5, 101, 102)"},
	{tag: "not-in", where: "id NOT IN (77, 78)"},
	{tag: "in-select", where: "id IN (SELECT id FROM t)"},
	{tag: "isnull", where: "b ISNULL OR b NOTNULL"},
	{tag: "not-null", where: "b NOT NULL"},
	{tag: "is-not-null", where: "b IS NOT NULL"},
	{tag: "is-not", where: "a IS NOT 12345"},
	{tag: "is-distinct", where: "a IS DISTINCT FROM 12345"},
	{tag: "is-not-distinct", where: "NOT (a IS NOT DISTINCT FROM 12345)"},
	{tag: "not-op", where: "NOT a = 12345"},
	{tag: "ne-ops", where: "a <> 12345 OR a != 54321 OR a == 1"},
	{tag: "bit-ops", where: "(id & 255) = id AND (id | 0) = id AND id << 1 > id AND id >> 8 = 0"},
	{tag: "exists", where: "EXISTS (SELECT 1 FROM u)"},
	{tag: "not-exists", where: "NOT EXISTS (SELECT 1 FROM u WHERE k = 'nope')"},
	{tag: "row-value", where: "(id, 1) <> (0, 1)"},
	{tag: "case-cond", where: "CASE WHEN id > 0 THEN 1 ELSE 0 END"},
	{tag: "case-base", where: "CASE id WHEN 0 THEN 0 WHEN 99 THEN 0 ELSE 1 END"},
	{tag: "cast", where: "CAST(id AS TEXT) <> ''"},
	{tag: "collate", where: "b <> 'ZZ' COLLATE NOCASE"},
	{tag: "neg-lit", where: "id > -5"},
	{tag: "double-neg", where: "id > - -0"},
	{tag: "neg-paren", where: "id > -(-0)"},
	{tag: "plus-unary", where: "id > +0"},
	{tag: "bitnot", where: "~id < 0"},
	{tag: "json-arrow", where: `'{"x":1}' ->> '$.x' = 1`},
	{tag: "hex-lit", where: "id < 0x7FFF"},
	{tag: "float-lit", where: "id < 1e9 AND .5 < id AND id > 0.25"},
	{tag: "str-escape", where: "coalesce(b, '') <> 'it''s'"},
	{tag: "blob-lit", where: "coalesce(c, 0) IS NOT x'00FFAB'"},
	{tag: "is-true", where: "(id > 0) IS TRUE AND (id < 0) IS NOT TRUE AND (id < 0) IS FALSE"},
	{tag: "bool-lit", where: "TRUE AND NOT FALSE"},
	{tag: "param-pos", where: "id <> ?"},
	{tag: "param-named", where: "id <> :pn"},
	{tag: "concat-prec", where: "b || 'x' || 1 + 2 <> ''"},
	{tag: "arith-prec", where: "id - (2 - 3) - 1 >= 0 AND 8 / (4 / 2) / 2 = 2 AND 2 * (3 + 4) = 14 AND 7 - 3 - 2 = 2"},
	{tag: "and-or-prec", where: "(id = 1 OR id > 0) AND (id < 0 OR id > 0)"},
	{tag: "not-prec", where: "NOT (id < 0 OR id = 0)"},
	{tag: "cmp-chain", where: "(id > 0) = 1 AND id > 0 = 1"},
	{tag: "qualified", where: "t.id > 0"},
	{tag: "func-multi", where: "max(id, 1, 0) >= 1 AND iif(id > 0, 1, 0) AND nullif(id, 0) IS NOT NULL AND instr('abc', 'b') = 2"},

	{tag: "current-timestamp", item: "CURRENT_TIMESTAMP", mode: mND},
	{tag: "current-date", item: "CURRENT_DATE", mode: mND},
	{tag: "current-time", item: "CURRENT_TIME", mode: mND},
	{tag: "alias-as", item: "a AS alias1"},
	{tag: "alias-bare", item: "a alias2"},
	{tag: "alias-quoted", item: `a AS "al ias"`},
	{tag: "item-qualified", item: "t.b"},
	{tag: "item-arith", item: "id * 2 + a % 3 - 1"},
	{tag: "item-concat", item: "b || '-' || id"},
	{tag: "item-case", item: "CASE WHEN a > 5 THEN 'hi' WHEN a IS NULL THEN 'nul' ELSE 'lo' END"},
	{tag: "item-cast", item: "CAST(a AS REAL)"},
	{tag: "item-null", item: "NULL"},
	{tag: "item-blob", item: "x'AB01'"},
	{tag: "item-string", item: "'lit ''q'' \"d\"'"},
	{tag: "item-float", item: "1.5e2"},
	{tag: "item-printf", item: "printf('%05d|%s', id, b)"},
	{tag: "item-scalar-subq", item: "(SELECT max(n) FROM u)"},
	{tag: "item-neg", item: "-a"},
	{tag: "item-double-neg", item: "- -id"},
	{tag: "item-window", item: "row_number() OVER (ORDER BY id)", kinds: "select"},
	{tag: "item-window-part", item: "sum(id) OVER (PARTITION BY a IS NULL ORDER BY id ROWS BETWEEN UNBOUNDED PRECEDING AND CURRENT ROW)", kinds: "select"},
	{tag: "item-filter", item: "count(*) FILTER (WHERE id > 1) OVER ()", kinds: "select"},
	{tag: "item-bool", item: "TRUE"},
	{tag: "item-isnull", item: "c IS NULL"},
	{tag: "item-in", item: "id IN (1, 3)"},
	{tag: "item-between", item: "id BETWEEN 2 AND 4"},
	{tag: "item-like", item: "b LIKE 'x%'"},
	{tag: "item-json", item: `'{"k":[1,2]}' -> '$.k[1]'`},
	{tag: "item-collate", item: "b COLLATE NOCASE"},

	// decoys: the function words where they are not calls
	{tag: "decoy-string", item: "'random() date(''now'') datetime('"},
	{tag: "decoy-alias-dq", item: `b AS "random()"`},
	{tag: "decoy-alias-dq-now", item: `b AS "datetime('now')"`},
	{tag: "decoy-alias-br", item: "b AS [date(]"},
	{tag: "decoy-alias-bt", item: "b AS `time(`"},
	{tag: "decoy-where", where: "coalesce(b, '') <> 'unixepoch() julianday( timediff( strftime(''%s'') randomblob(4)'"},
	{tag: "decoy-comment", kinds: "*"},

	// structural features, handled by the skeleton code
	{tag: "distinct", kinds: "select insert-select"},
	{tag: "join", kinds: "select"},
	{tag: "left-join", kinds: "select"},
	{tag: "join-using", kinds: "select"},
	{tag: "group-by", kinds: "select"},
	{tag: "compound", kinds: "select"},
	{tag: "order-desc", kinds: "select"},
	{tag: "order-nulls", kinds: "select"},
	{tag: "order-collate", kinds: "select"},
	{tag: "limit", kinds: "select"},
	{tag: "limit-offset", kinds: "select"},
	{tag: "limit-comma", kinds: "select"},
	{tag: "table-alias", kinds: "select update delete"},
	{tag: "schema-prefix", kinds: "select insert insert-select update delete"},
	{tag: "not-indexed", kinds: "select update delete"},
	{tag: "star", kinds: "select"},
	{tag: "or-replace", kinds: "insert insert-select upsert"},
	{tag: "or-ignore", kinds: "insert update"},
	{tag: "replace-into", kinds: "insert"},
	{tag: "multi-row", kinds: "insert upsert values"},
	{tag: "no-column-list", kinds: "insert"},
	{tag: "upsert-nothing", kinds: "upsert"},
	{tag: "upsert-where", kinds: "upsert"},
	{tag: "upsert-excluded", kinds: "upsert"},
	{tag: "set-row-value", kinds: "update"},
	{tag: "update-from", kinds: "update"},
	{tag: "cte-plain", kinds: "select insert-select update delete"},
	{tag: "cte-recursive", kinds: "select"},

	// whole-text features
	{tag: "lead-comment", kinds: "*"},
	{tag: "lead-line-comment", kinds: "*"},
	{tag: "trail-comment", kinds: "*"},
	{tag: "inline-comment", kinds: "*"},
	{tag: "semicolon", kinds: "*"},
	{tag: "lead-space", kinds: "*"},
	{tag: "lower-kw", kinds: "*"},
	{tag: "newlines", kinds: "*"},
	{tag: "qid-dq", kinds: "*"},
	{tag: "qid-br", kinds: "*"},
	{tag: "qid-bt", kinds: "*"},
	{tag: "second-stmt", kinds: "insert insert-select upsert update delete"},
	{tag: "first-stmt", kinds: "insert insert-select upsert update delete"},
}

var featByTag = func() map[string]*featDef {
	m := map[string]*featDef{}
	for i := range featDefs {
		m[featDefs[i].tag] = &featDefs[i]
	}
	return m
}()

func hasWhere(kind string) bool {
	switch kind {
	case "select", "insert-select", "update", "delete":
		return true
	}
	return false
}

// featApplies reports whether a feature can be rendered for a spec kind.
func featApplies(f *featDef, sp *spec) bool {
	if f.where != "" {
		return hasWhere(sp.Kind)
	}
	if f.tag == "decoy-string" && sp.Kind == "insert" {
		return true
	}
	if f.item != "" {
		if f.kinds != "" && !strings.Contains(" "+f.kinds+" ", " "+sp.Kind+" ") {
			return false
		}
		switch sp.Kind {
		case "select":
			return true
		case "insert", "insert-select", "update", "delete":
			return sp.Ret == 1
		}
		return false
	}
	if f.kinds == "*" {
		return true
	}
	return strings.Contains(" "+f.kinds+" ", " "+sp.Kind+" ")
}

// positions available per kind
var kindPos = map[string][]string{
	"select":        {"item", "item", "item", "scalar", "cte", "fromsub", "casecond", "where", "where", "insub", "exists", "inlist", "having", "joinon", "orderby", "orderby", "winorder", "limit", "compound"},
	"insert":        {"value", "value", "value", "returning", "scalar"},
	"insert-select": {"item", "item", "where", "cte", "scalar", "insub", "returning"},
	"upsert":        {"value", "value", "upset", "upset", "upwhere", "returning"},
	"update":        {"set", "set", "set", "where", "insub", "exists", "scalar", "returning", "cte"},
	"delete":        {"where", "where", "insub", "exists", "returning", "cte"},
	"values":        {"value"},
}

func posRole(pos string) string {
	switch pos {
	case "where", "insub", "exists", "having", "joinon", "casecond", "upwhere":
		return "cond"
	case "limit", "inlist":
		return "int"
	case "orderby", "winorder":
		return "ord"
	}
	return "out"
}

// defaultPos is the plainest slot of a kind (reduction target).
func defaultPos(kind string) string {
	switch kind {
	case "select", "insert-select":
		return "item"
	case "insert", "upsert", "values":
		return "value"
	case "update":
		return "set"
	}
	return "where"
}

// ---------------------------------------------------------------------------
// Rendering
// ---------------------------------------------------------------------------

func render(sp *spec, pin bool, T int64) *rendered {
	rc := &rctx{sp: sp, pin: pin, T: T}
	switch {
	case sp.has("qid-dq"):
		rc.qstyle = 1
	case sp.has("qid-br"):
		rc.qstyle = 2
	case sp.has("qid-bt"):
		rc.qstyle = 3
	}
	out := &rendered{TabModes: map[string][]int{"t": make([]int, len(tCols)), "u": make([]int, len(uCols))}}
	var sql string
	switch sp.Kind {
	case "select":
		sql = rc.selectStmt(out)
	case "insert", "insert-select":
		sql = rc.insertStmt(out)
	case "upsert":
		sql = rc.upsertStmt(out)
	case "update":
		sql = rc.updateStmt(out)
	case "delete":
		sql = rc.deleteStmt(out)
	case "values":
		sql = rc.valuesStmt(out)
	}
	if sp.has("inline-comment") {
		sql = strings.Replace(sql, " ", " /* c */ ", 1)
	}
	if sp.has("decoy-comment") {
		sql = strings.Replace(sql, " ", " /* random() date('now') time( */ ", 1)
	}
	if sp.has("newlines") {
		sql = replaceOutsideQuotes(sql, func(s string) string {
			s = strings.ReplaceAll(s, " FROM ", "\nFROM\t")
			s = strings.ReplaceAll(s, " WHERE ", "\n  WHERE  ")
			s = strings.ReplaceAll(s, " VALUES ", "\nVALUES\n")
			return strings.ReplaceAll(s, " SET ", "\r\nSET ")
		})
	}
	if sp.has("lower-kw") {
		sql = replaceOutsideQuotes(sql, strings.ToLower)
	}
	if sp.has("second-stmt") {
		sql += "; INSERT INTO u(k, v) VALUES ('second', 2)"
	}
	if sp.has("first-stmt") {
		sql = "INSERT INTO u(k, v) VALUES ('first', 1); " + sql
	}
	if sp.has("semicolon") {
		sql += ";"
	}
	if sp.has("trail-comment") {
		sql += " -- done"
	}
	if sp.has("lead-comment") {
		sql = "/* lead */ " + sql
	}
	if sp.has("lead-line-comment") {
		sql = "-- lead\n" + sql
	}
	if sp.has("lead-space") {
		sql = " \n\t" + sql
	}
	// resolve parameter placeholders in text order
	var params []param
	var b strings.Builder
	for {
		i := strings.Index(sql, "\x00P")
		if i < 0 {
			b.WriteString(sql)
			break
		}
		j := strings.Index(sql[i+2:], "\x00")
		var idx int
		fmt.Sscanf(sql[i+2:i+2+j], "%d", &idx)
		p := rc.params[idx]
		b.WriteString(sql[:i])
		if p.Name != "" {
			b.WriteString(":" + p.Name)
		} else {
			b.WriteString("?")
		}
		params = append(params, p)
		sql = sql[i+2+j+1:]
	}
	out.SQL = b.String()
	out.Params = params
	out.NowCalls = rc.nowN
	if sp.has("second-stmt") || sp.has("first-stmt") {
		out.Mode = "x"
		out.ResModes = nil
	}
	return out
}

// replaceOutsideQuotes applies f to the parts of s that are outside
// '...', "...", `...`, [...] and parameter placeholders.
func replaceOutsideQuotes(s string, f func(string) string) string {
	var b strings.Builder
	i := 0
	start := 0
	for i < len(s) {
		ch := s[i]
		var end byte
		switch ch {
		case '\'', '"', '`':
			end = ch
		case '[':
			end = ']'
		case 0:
			end = 0
		default:
			i++
			continue
		}
		b.WriteString(f(s[start:i]))
		j := i + 1
		for j < len(s) {
			if s[j] == end {
				if end != ']' && end != 0 && j+1 < len(s) && s[j+1] == end {
					j += 2
					continue
				}
				break
			}
			j++
		}
		if j >= len(s) {
			j = len(s) - 1
		}
		b.WriteString(s[i : j+1])
		i = j + 1
		start = i
	}
	b.WriteString(f(s[start:]))
	return b.String()
}

func (rc *rctx) callsAt(pos string) []*call {
	var r []*call
	for i := range rc.sp.Calls {
		if rc.sp.Calls[i].Pos == pos {
			r = append(r, &rc.sp.Calls[i])
		}
	}
	return r
}

// whereConds collects conditions on table t: feature snippets and calls at
// cond positions.
func (rc *rctx) whereConds() []string {
	var conds []string
	sp := rc.sp
	for _, tag := range sp.Feats {
		f := featByTag[tag]
		if f == nil || f.where == "" || !featApplies(f, sp) {
			continue
		}
		w := f.where
		switch tag {
		case "param-pos":
			w = strings.Replace(w, "?", rc.addParam(param{I: 999}), 1)
		case "param-named":
			w = strings.Replace(w, ":pn", rc.addParam(param{Name: "pn", I: 998}), 1)
		}
		conds = append(conds, w)
	}
	for _, c := range rc.callsAt("where") {
		conds = append(conds, rc.cond(c))
	}
	for _, c := range rc.callsAt("insub") {
		conds = append(conds, "id IN (SELECT id FROM t WHERE "+rc.cond(c)+")")
	}
	for _, c := range rc.callsAt("exists") {
		conds = append(conds, "EXISTS (SELECT 1 FROM u WHERE "+rc.cond(c)+")")
	}
	for _, c := range rc.callsAt("inlist") {
		conds = append(conds, "id IN (1, 2, 3, 4, 5, "+rc.intx(c)+" + 101, 102)")
	}
	return conds
}

func joinConds(conds []string) string {
	// the first condition is left bare on purpose (BETWEEN ... OR at top level)
	if len(conds) == 0 {
		return ""
	}
	s := conds[len(conds)-1]
	if len(conds) > 1 {
		var rest []string
		for _, c := range conds[:len(conds)-1] {
			rest = append(rest, "("+c+")")
		}
		s = strings.Join(rest, " AND ") + " AND " + s
	}
	return " WHERE " + s
}

// featItems returns extra result columns from item features. early selects the
// window-function items, which are placed before the calls (their ORDER BY is
// then walked before the calls are).
func (rc *rctx) featItems(early bool) (items []string, modes []int) {
	for _, tag := range rc.sp.Feats {
		f := featByTag[tag]
		if f == nil || f.item == "" || !featApplies(f, rc.sp) {
			continue
		}
		if strings.Contains(f.item, " OVER ") != early {
			continue
		}
		items = append(items, f.item)
		modes = append(modes, f.mode)
	}
	return
}

func (rc *rctx) table(name string) string {
	s := rc.q(name)
	if rc.sp.has("schema-prefix") {
		s = rc.q("main") + "." + s
	}
	return s
}

// cte renders WITH for calls at the cte position; returns prefix, extra FROM
// source and the items (w.vN) with modes.
func (rc *rctx) cte() (prefix, source string, items []string, modes []int) {
	cs := rc.callsAt("cte")
	var parts []string
	if len(cs) > 0 {
		var cols, body []string
		for i, c := range cs {
			x, m := rc.out(c)
			cols = append(cols, fmt.Sprintf("v%d", i))
			body = append(body, x)
			items = append(items, fmt.Sprintf("w.v%d", i))
			modes = append(modes, m)
		}
		parts = append(parts, "w("+strings.Join(cols, ", ")+") AS (SELECT "+strings.Join(body, ", ")+")")
		source = ", w"
	}
	if rc.sp.has("cte-plain") {
		parts = append(parts, "p(x) AS (SELECT 1)")
	}
	rec := ""
	if rc.sp.has("cte-recursive") && rc.sp.Kind == "select" {
		rec = "RECURSIVE "
		parts = append(parts, "r(x) AS (SELECT 1 UNION ALL SELECT x + 1 FROM r WHERE x < 3)")
	}
	if len(parts) > 0 {
		prefix = "WITH " + rec + strings.Join(parts, ", ") + " "
	}
	return
}

func (rc *rctx) selectStmt(out *rendered) string {
	sp := rc.sp
	prefix, cteSrc, cteItems, cteModes := rc.cte()
	items := []string{rc.q("id"), rc.q("a")}
	modes := []int{mExact, mExact}
	if sp.has("star") {
		items = []string{"t.*"}
		modes = make([]int, len(tCols))
	}
	if sp.has("join-using") {
		// id is ambiguous under a plain join; USING(n)... keep t-qualified
	}
	ei, em := rc.featItems(true)
	items = append(items, ei...)
	modes = append(modes, em...)
	for _, c := range rc.callsAt("winorder") {
		items = append(items, "row_number() OVER (ORDER BY "+rc.ord(c)+", t.id DESC)")
		modes = append(modes, mExact)
	}
	for _, c := range rc.callsAt("item") {
		x, m := rc.out(c)
		items = append(items, x)
		modes = append(modes, m)
	}
	for _, c := range rc.callsAt("scalar") {
		x, m := rc.out(c)
		items = append(items, "(SELECT "+x+")")
		modes = append(modes, m)
	}
	items = append(items, cteItems...)
	modes = append(modes, cteModes...)
	src := rc.table("t")
	if sp.has("table-alias") || sp.has("star") || sp.has("join") || sp.has("left-join") || sp.has("join-using") || len(rc.callsAt("joinon")) > 0 {
		// keep the name t visible for snippets that say t.x
		if sp.has("schema-prefix") || rc.qstyle != 0 {
			src += " AS t"
		}
	} else if sp.has("schema-prefix") || rc.qstyle != 0 {
		src += " AS t"
	}
	if sp.has("not-indexed") && !strings.HasSuffix(src, " AS t") {
		src += " NOT INDEXED"
	}
	src += cteSrc
	if fs := rc.callsAt("fromsub"); len(fs) > 0 {
		var body []string
		for i, c := range fs {
			x, m := rc.out(c)
			body = append(body, fmt.Sprintf("%s AS s%d", x, i))
			items = append(items, fmt.Sprintf("sq.s%d", i))
			modes = append(modes, m)
		}
		src += ", (SELECT " + strings.Join(body, ", ") + ") AS sq"
	}
	for _, c := range rc.callsAt("casecond") {
		items = append(items, "CASE WHEN "+rc.cond(c)+" THEN 'y' ELSE 'n' END")
		modes = append(modes, mExact)
	}
	fi, fm := rc.featItems(false)
	items = append(items, fi...)
	modes = append(modes, fm...)
	jo := rc.callsAt("joinon")
	if sp.has("join") || len(jo) > 0 {
		on := "u.n >= 0"
		for _, c := range jo {
			on += " AND " + rc.cond(c)
		}
		src += " JOIN u ON " + on
		items = append(items, "u.k")
		modes = append(modes, mExact)
	}
	if sp.has("left-join") {
		src += " LEFT JOIN u AS u2 ON u2.n = t.id"
		items = append(items, "u2.k")
		modes = append(modes, mExact)
	}
	if sp.has("join-using") {
		src += " LEFT OUTER JOIN (SELECT 1 AS id, 'one' AS nm) AS j USING (id)"
		items = append(items, "j.nm")
		modes = append(modes, mExact)
	}
	if sp.has("cte-plain") {
		src += ", p"
	}
	if sp.has("cte-recursive") {
		src += " JOIN r ON r.x = 1"
	}
	sql := prefix + "SELECT "
	if sp.has("distinct") {
		sql += "DISTINCT "
	}
	// id must stay unambiguous: qualify when joins are present
	ambiguous := sp.has("join-using")
	if ambiguous && !sp.has("star") {
		items[0] = "t.id"
	}
	sql += strings.Join(items, ", ") + " FROM " + src
	sql += joinConds(rc.whereConds())
	hv := rc.callsAt("having")
	if sp.has("group-by") || len(hv) > 0 {
		sql += " GROUP BY t.id"
		if sp.has("join") || len(jo) > 0 {
			sql += ", u.k"
		}
		if len(hv) > 0 {
			var hs []string
			for _, c := range hv {
				hs = append(hs, rc.cond(c))
			}
			sql += " HAVING " + strings.Join(hs, " AND ")
		}
	}
	comp := rc.callsAt("compound")
	compound := sp.has("compound") || len(comp) > 0
	if compound {
		arm := make([]string, len(modes))
		for i := range arm {
			arm[i] = "NULL"
		}
		arm[0] = "id + 100"
		for i, c := range comp {
			if 1+i < len(arm) {
				x, m := rc.out(c)
				arm[1+i] = x
				if m > modes[1+i] {
					modes[1+i] = m
				}
			}
		}
		sql += " UNION ALL SELECT " + strings.Join(arm, ", ") + " FROM t"
	}
	ob := rc.callsAt("orderby")
	lim := rc.callsAt("limit")
	unorderedRandom := false
	var terms []string
	if !compound {
		for _, c := range ob {
			x := rc.ord(c)
			terms = append(terms, x)
			if !c.Dead && (c.Fn == "random" || c.Fn == "randomblob") {
				unorderedRandom = true
			}
		}
	}
	wantOrder := len(terms) > 0 || sp.has("order-desc") || sp.has("order-nulls") || sp.has("order-collate") ||
		sp.has("limit") || sp.has("limit-offset") || sp.has("limit-comma") || len(lim) > 0
	if wantOrder && !unorderedRandom {
		idt := "t.id"
		if compound {
			idt = "1"
		}
		if sp.has("order-collate") && !compound {
			terms = append(terms, "b COLLATE NOCASE ASC")
		}
		if sp.has("order-desc") {
			idt += " DESC"
		}
		if sp.has("order-nulls") {
			idt += " NULLS LAST"
		}
		terms = append(terms, idt)
		if (sp.has("join") || len(jo) > 0) && !compound {
			terms = append(terms, "u.k")
		}
		out.Ordered = true
	}
	if len(terms) > 0 {
		sql += " ORDER BY " + strings.Join(terms, ", ")
	}
	if out.Ordered {
		n := "3"
		for _, c := range lim {
			n += " + " + rc.intx(c)
		}
		switch {
		case sp.has("limit-offset"):
			sql += " LIMIT " + n + " OFFSET 1"
		case sp.has("limit-comma"):
			sql += " LIMIT 1, " + n
		case sp.has("limit") || len(lim) > 0:
			sql += " LIMIT " + n
		}
	}
	out.Mode = "q"
	out.ResModes = modes
	return sql
}

// returning renders the RETURNING clause of a write on table t (or u).
func (rc *rctx) returning(out *rendered, tab string) string {
	sp := rc.sp
	rets := rc.callsAt("returning")
	if sp.Ret == 0 && len(rets) == 0 {
		out.Mode = "x"
		return ""
	}
	out.Mode = "q"
	if sp.Ret == 2 && len(rets) == 0 {
		out.ResModes = append([]int(nil), out.TabModes[tab]...)
		return " RETURNING *"
	}
	var items []string
	var modes []int
	if tab == "t" {
		items = []string{rc.q("id"), rc.q("c"), rc.q("d"), rc.q("e")}
		tm := out.TabModes["t"]
		modes = []int{mExact, tm[3], tm[4], tm[5]}
	} else {
		items = []string{rc.q("k"), rc.q("v"), rc.q("n")}
		modes = append([]int(nil), out.TabModes["u"]...)
	}
	for _, c := range rets {
		x, m := rc.out(c)
		items = append(items, x)
		modes = append(modes, m)
	}
	if tab == "t" {
		fi, fm := rc.featItems(false)
		items = append(items, fi...)
		modes = append(modes, fm...)
	}
	out.ResModes = modes
	return " RETURNING " + strings.Join(items, ", ")
}

func maxMode(a, b int) int {
	if a > b {
		return a
	}
	return b
}

func (rc *rctx) insertStmt(out *rendered) string {
	sp := rc.sp
	tm := out.TabModes["t"]
	verb := "INSERT INTO "
	switch {
	case sp.has("replace-into") && sp.Kind == "insert":
		verb = "REPLACE INTO "
	case sp.has("or-replace"):
		verb = "INSERT OR REPLACE INTO "
	case sp.has("or-ignore") && sp.Kind == "insert":
		verb = "INSERT OR IGNORE INTO "
	}
	if sp.Kind == "insert" {
		vals := rc.callsAt("value")
		sc := rc.callsAt("scalar")
		var exprs []string
		var ms []int
		for _, c := range vals {
			x, m := rc.out(c)
			exprs = append(exprs, x)
			ms = append(ms, m)
		}
		for _, c := range sc {
			x, m := rc.out(c)
			exprs = append(exprs, "(SELECT "+x+")")
			ms = append(ms, m)
		}
		if sp.has("decoy-string") {
			exprs = append(exprs, "'random() date(''now'') datetime('")
			ms = append(ms, mExact)
		}
		// rows of (id, a, c, d, e); values fill c,d,e then spill to more rows
		var rows []string
		rowN := 0
		full := sp.has("no-column-list")
		for len(exprs) > 0 || rowN == 0 || (sp.has("multi-row") && rowN < 2) {
			cde := []string{"NULL", "'k'", "3"}
			for i := 0; i < 3 && len(exprs) > 0; i++ {
				cde[i] = exprs[0]
				tm[3+i] = maxMode(tm[3+i], ms[0])
				exprs, ms = exprs[1:], ms[1:]
			}
			id := 100 + rowN
			if rowN == 1 && (sp.has("or-replace") || sp.has("replace-into") || sp.has("or-ignore")) {
				id = 2 // conflicts with an existing row
			}
			if full {
				rows = append(rows, fmt.Sprintf("(%d, %d, 'nb', %s, '2001-01-01')", id, rowN, strings.Join(cde, ", ")))
			} else {
				rows = append(rows, fmt.Sprintf("(%d, %d, %s)", id, rowN, strings.Join(cde, ", ")))
			}
			rowN++
		}
		cols := "(" + rc.q("id") + ", " + rc.q("a") + ", " + rc.q("c") + ", " + rc.q("d") + ", " + rc.q("e") + ")"
		if full {
			cols = ""
		}
		sql := verb + rc.table("t") + cols + " VALUES " + strings.Join(rows, ", ")
		return sql + rc.returning(out, "t")
	}
	// insert-select
	prefix, cteSrc, cteItems, cteModes := rc.cte()
	var exprs []string
	var ms []int
	for _, c := range rc.callsAt("item") {
		x, m := rc.out(c)
		exprs = append(exprs, x)
		ms = append(ms, m)
	}
	for _, c := range rc.callsAt("scalar") {
		x, m := rc.out(c)
		exprs = append(exprs, "(SELECT "+x+")")
		ms = append(ms, m)
	}
	exprs = append(exprs, cteItems...)
	ms = append(ms, cteModes...)
	cde := []string{"NULL", "'k'", "3"}
	for i := 0; i < 3 && i < len(exprs); i++ {
		cde[i] = exprs[i]
		tm[3+i] = maxMode(tm[3+i], ms[i])
	}
	// surplus calls go to extra conditions so that they are still present
	var extra []string
	for i := 3; i < len(exprs); i++ {
		extra = append(extra, "("+exprs[i]+") IS NOT NULL OR 1")
	}
	src := "t"
	if sp.has("schema-prefix") {
		src = rc.q("main") + ".t"
	}
	src += cteSrc
	if sp.has("cte-plain") {
		src += ", p"
	}
	sel := "SELECT "
	if sp.has("distinct") {
		sel += "DISTINCT "
	}
	conds := append(rc.whereConds(), extra...)
	sql := prefix + verb + rc.table("t") + "(" + rc.q("id") + ", " + rc.q("a") + ", " + rc.q("c") + ", " + rc.q("d") + ", " + rc.q("e") + ") " +
		sel + "id + 100, a, " + strings.Join(cde, ", ") + " FROM " + src + joinConds(conds)
	if len(conds) == 0 {
		sql += " WHERE true" // avoids the INSERT ... SELECT ... ON CONFLICT parsing ambiguity; harmless
	}
	return sql + rc.returning(out, "t")
}

func (rc *rctx) upsertStmt(out *rendered) string {
	sp := rc.sp
	um := out.TabModes["u"]
	vals := rc.callsAt("value")
	var rows []string
	keys := []string{"'k1'", "'k9'", "'k2'", "'k8'", "'k7'"}
	n := len(vals)
	if n == 0 {
		n = 1
	}
	if sp.has("multi-row") && n < 2 {
		n = 2
	}
	for i := 0; i < n; i++ {
		v := "'plain'"
		if i < len(vals) {
			x, m := rc.out(vals[i])
			v = x
			um[1] = maxMode(um[1], m)
		}
		rows = append(rows, "("+keys[i%len(keys)]+", "+v+")")
	}
	verb := "INSERT INTO "
	sql := verb + rc.table("u") + "(" + rc.q("k") + ", " + rc.q("v") + ") VALUES " + strings.Join(rows, ", ") + " ON CONFLICT(k) DO "
	if sp.has("upsert-nothing") && len(rc.callsAt("upset")) == 0 && len(rc.callsAt("upwhere")) == 0 {
		sql += "NOTHING"
		return sql + rc.returning(out, "u")
	}
	set := []string{"n = n + 1"}
	if sp.has("upsert-excluded") {
		set = append(set, "v = excluded.v")
	}
	for _, c := range rc.callsAt("upset") {
		x, m := rc.out(c)
		set = []string{"n = n + 1", "v = " + x}
		um[1] = maxMode(um[1], m)
	}
	sql += "UPDATE SET " + strings.Join(set, ", ")
	var ws []string
	if sp.has("upsert-where") {
		ws = append(ws, "u.n >= 0")
	}
	for _, c := range rc.callsAt("upwhere") {
		x, _ := rc.callText(c)
		_ = x
		ws = append(ws, rc.upCond(c))
	}
	if len(ws) > 0 {
		sql += " WHERE " + strings.Join(ws, " AND ")
	}
	return sql + rc.returning(out, "u")
}

// upCond is cond() without references to columns of t.
func (rc *rctx) upCond(c *call) string {
	if isTimeFn(c.Fn) && !c.Dead {
		x, _ := rc.callText(c)
		switch c.Wrap {
		case "gt":
			return x + " > '2000-01-01'"
		case "notnull":
			return x + " IS NOT NULL"
		}
		return x + " > '2025-01-01'"
	}
	return rc.cond(c)
}

func (rc *rctx) updateStmt(out *rendered) string {
	sp := rc.sp
	tm := out.TabModes["t"]
	prefix, _, cteItems, cteModes := rc.cte()
	var exprs []string
	var ms []int
	for _, c := range rc.callsAt("set") {
		x, m := rc.out(c)
		exprs = append(exprs, x)
		ms = append(ms, m)
	}
	for _, c := range rc.callsAt("scalar") {
		x, m := rc.out(c)
		exprs = append(exprs, "(SELECT "+x+")")
		ms = append(ms, m)
	}
	for i := range cteItems {
		exprs = append(exprs, "(SELECT "+strings.TrimPrefix(cteItems[i], "w.")+" FROM w)")
		ms = append(ms, cteModes[i])
	}
	cols := []string{"c", "d", "e"}
	var sets []string
	var extra []string
	for i, x := range exprs {
		if i < 3 {
			sets = append(sets, rc.q(cols[i])+" = "+x)
			tm[3+i] = maxMode(tm[3+i], ms[i])
		} else {
			extra = append(extra, "("+x+") IS NOT NULL OR 1")
		}
	}
	if len(sets) == 0 {
		sets = append(sets, rc.q("c")+" = 'upd'")
	}
	if sp.has("set-row-value") {
		sets = append(sets, "(a, b) = (a + 1, 'rv')")
	}
	verb := "UPDATE "
	if sp.has("or-ignore") {
		verb = "UPDATE OR IGNORE "
	}
	tab := rc.table("t")
	if sp.has("table-alias") || sp.has("schema-prefix") || rc.qstyle != 0 {
		tab += " AS t"
	} else if sp.has("not-indexed") {
		tab += " NOT INDEXED"
	}
	sql := prefix + verb + tab + " SET " + strings.Join(sets, ", ")
	conds := append(rc.whereConds(), extra...)
	if sp.has("update-from") {
		sql += " FROM u"
		conds = append(conds, "u.k = 'k1'")
	}
	if sp.has("cte-plain") {
		conds = append(conds, "EXISTS (SELECT 1 FROM p)")
	}
	sql += joinConds(conds)
	return sql + rc.returning(out, "t")
}

func (rc *rctx) deleteStmt(out *rendered) string {
	sp := rc.sp
	prefix, _, cteItems, _ := rc.cte()
	tab := rc.table("t")
	if sp.has("table-alias") || sp.has("schema-prefix") || rc.qstyle != 0 {
		tab += " AS t"
	} else if sp.has("not-indexed") {
		tab += " NOT INDEXED"
	}
	sql := prefix + "DELETE FROM " + tab
	conds := rc.whereConds()
	for _, it := range cteItems {
		conds = append(conds, "(SELECT "+strings.TrimPrefix(it, "w.")+" FROM w) IS NOT NULL OR 1")
	}
	if sp.has("cte-plain") {
		conds = append(conds, "EXISTS (SELECT 1 FROM p)")
	}
	conds = append(conds, "id <> 3")
	sql += joinConds(conds)
	return sql + rc.returning(out, "t")
}

func (rc *rctx) valuesStmt(out *rendered) string {
	vals := rc.callsAt("value")
	var rows []string
	modes := []int{mExact, mExact}
	if len(vals) == 0 {
		rows = append(rows, "(1, 'v')")
	}
	for i, c := range vals {
		x, m := rc.out(c)
		rows = append(rows, fmt.Sprintf("(%d, %s)", i+1, x))
		modes[1] = maxMode(modes[1], m)
	}
	if rc.sp.has("multi-row") {
		rows = append(rows, "(99, 'last')")
	}
	out.Mode = "q"
	out.ResModes = modes
	return "VALUES " + strings.Join(rows, ", ")
}

// ---------------------------------------------------------------------------
// Generation
// ---------------------------------------------------------------------------

var (
	modPool    = []string{"+1 day", "-3 hours", "start of month", "start of day", "start of year", "weekday 0", "+1 month", "-1 year", "+2.5 seconds", "+01:30", "subsec", "+0000-01-00 00:00:00"}
	rareMods   = []string{"unixepoch", "julianday", "auto", "floor", "ceiling", "utc"}
	fmtPool    = []string{"%s", "%Y-%m-%d", "%H:%M:%S", "%J", "%f", "%Y-%m-%d %H:%M:%f", "%j", "%W %w %u", "%d/%m/%Y", "%%s", "%F %T", "%e %k %l %p %P %R", "%G-%V", "at %H h"}
	gapPool    = []string{" ", "  ", "\t", "\n", "/**/", " /* x */ "}
	kindPool   = []string{"select", "select", "select", "insert", "insert", "insert-select", "upsert", "update", "update", "delete", "values"}
	timeFns    = []string{"date", "time", "datetime", "julianday", "unixepoch", "strftime", "timediff"}
	nowForms   = []string{"now", "now", "now", "NOW", "Now", "dqnow", "implicit", "implicit", "paren", "param"}
	otherForms = []string{"lit", "lit", "col"}
)

func pick[T any](r *rand.Rand, l []T) T { return l[r.IntN(len(l))] }

func genCall(r *rand.Rand, kind string) call {
	c := call{}
	x := r.IntN(100)
	switch {
	case x < 22:
		c.Fn = "random"
	case x < 34:
		c.Fn = "randomblob"
	default:
		c.Fn = pick(r, timeFns)
	}
	c.Pos = pick(r, kindPos[kind])
	role := posRole(c.Pos)
	if role == "ord" && !isTimeFn(c.Fn) {
		role = "out"
	}
	if r.IntN(4) == 0 {
		c.Case = 1 + r.IntN(2)
	}
	if r.IntN(8) == 0 {
		c.Gap = pick(r, gapPool)
	}
	switch c.Fn {
	case "random":
		if role == "out" {
			if r.IntN(2) == 0 {
				c.Wrap = pick(r, randRawWraps)
			} else {
				c.Wrap = pick(r, randExWraps)
			}
		} else {
			c.Wrap = pick(r, randExWraps)
		}
	case "randomblob":
		c.N = []int{4, 1, 0, 16, 3, 8}[r.IntN(6)]
		switch r.IntN(8) {
		case 0:
			c.Form = "expr"
		case 1:
			c.Form = "col"
		default:
			c.Form = "lit"
		}
		if role == "out" {
			if r.IntN(2) == 0 {
				c.Wrap = pick(r, blobRawWraps)
			} else {
				c.Wrap = pick(r, blobExWraps)
			}
		}
	default:
		if r.IntN(5) == 0 {
			c.Form = pick(r, otherForms)
			c.N = r.IntN(len(litTimes))
		} else {
			c.Form = pick(r, nowForms)
		}
		if c.Fn == "timediff" {
			if c.Form == "implicit" {
				c.Form = "now"
			}
			c.Side = r.IntN(3)
			c.N = r.IntN(3)
		}
		if c.Fn == "strftime" {
			c.Fmt = pick(r, fmtPool)
		}
		if c.Form != "implicit" && c.Fn != "timediff" {
			for k := r.IntN(3); k > 0; k-- {
				if r.IntN(25) == 0 {
					c.Mods = append(c.Mods, pick(r, rareMods))
				} else {
					c.Mods = append(c.Mods, pick(r, modPool))
				}
			}
		}
		if role == "out" {
			c.Wrap = pick(r, timeOutWraps)
		} else if role == "cond" {
			c.Wrap = pick(r, timeCondWraps)
		}
	}
	return c
}

func genSpec(r *rand.Rand) *spec {
	sp := &spec{Kind: pick(r, kindPool)}
	nc := []int{0, 1, 1, 1, 2, 2, 3, 4}[r.IntN(8)]
	for i := 0; i < nc; i++ {
		sp.Calls = append(sp.Calls, genCall(r, sp.Kind))
	}
	if sp.Kind != "select" && sp.Kind != "values" {
		sp.Ret = []int{0, 0, 1, 1, 2}[r.IntN(5)]
	}
	nf := []int{0, 0, 1, 1, 2, 3, 4}[r.IntN(7)]
	for i := 0; i < nf; i++ {
		f := &featDefs[r.IntN(len(featDefs))]
		if featApplies(f, sp) && !sp.has(f.tag) {
			sp.Feats = append(sp.Feats, f.tag)
		}
	}
	normalize(sp)
	return sp
}

// normalize removes combinations the skeletons cannot render meaningfully.
func normalize(sp *spec) {
	drop := func(tag string) {
		var o []string
		for _, f := range sp.Feats {
			if f != tag {
				o = append(o, f)
			}
		}
		sp.Feats = o
	}
	// one quoting style
	q := 0
	for _, t := range []string{"qid-dq", "qid-br", "qid-bt"} {
		if sp.has(t) {
			q++
			if q > 1 {
				drop(t)
			}
		}
	}
	if sp.has("first-stmt") && sp.has("second-stmt") {
		drop("first-stmt")
	}
	multi := sp.has("first-stmt") || sp.has("second-stmt")
	if multi {
		// rows of a multi-statement text are not observable: no RETURNING
		sp.Ret = 0
		for i := range sp.Calls {
			if sp.Calls[i].Pos == "returning" {
				sp.Calls[i].Pos = defaultPos(sp.Kind)
			}
		}
		drop("trail-comment")
		// positional parameters of a multi-statement text bind per statement
		drop("param-pos")
		drop("param-named")
		for i := range sp.Calls {
			if sp.Calls[i].Form == "param" {
				sp.Calls[i].Form = "now"
			}
		}
	}
	if sp.has("trail-comment") && sp.has("semicolon") {
		// "stmt; -- c": the driver treats the comment as a second, empty statement
		drop("semicolon")
	}
	if sp.has("lead-line-comment") && sp.has("lead-comment") {
		drop("lead-comment")
	}
	if sp.Kind == "select" {
		if sp.has("star") {
			drop("group-by")
			drop("distinct")
		}
		hasCompound := sp.has("compound")
		for _, c := range sp.Calls {
			if c.Pos == "compound" {
				hasCompound = true
			}
		}
		if hasCompound {
			// window / group features and joins complicate the second arm
			for _, t := range []string{"star", "group-by", "join", "left-join", "join-using", "order-collate", "item-window", "item-window-part", "item-filter", "cte-recursive"} {
				drop(t)
			}
			for i := range sp.Calls {
				switch sp.Calls[i].Pos {
				case "having", "joinon", "orderby", "winorder":
					sp.Calls[i].Pos = "item"
					sp.Calls[i].Wrap = ""
				}
			}
		}
		grp := sp.has("group-by")
		for _, c := range sp.Calls {
			if c.Pos == "having" {
				grp = true
			}
		}
		for i := range sp.Calls {
			c := &sp.Calls[i]
			if c.Pos != "winorder" {
				continue
			}
			// a window needs ungrouped rows; a random window order is the
			// documented exclusion and is exercised at the plain ORDER BY
			if grp || sp.has("star") || sp.has("distinct") {
				c.Pos = "orderby"
			} else if !isTimeFn(c.Fn) {
				c.Pos = "orderby"
			}
		}
		if grp {
			for _, t := range []string{"item-window", "item-window-part", "item-filter", "star", "left-join", "join-using"} {
				drop(t)
			}
		}
		if sp.has("distinct") {
			for i := range sp.Calls {
				if sp.Calls[i].Pos == "orderby" || sp.Calls[i].Pos == "winorder" {
					sp.Calls[i].Pos = "item"
					sp.Calls[i].Wrap = ""
				}
			}
		}
		nl := 0
		for _, t := range []string{"limit", "limit-offset", "limit-comma"} {
			if sp.has(t) {
				nl++
				if nl > 1 {
					drop(t)
				}
			}
		}
		// ORDER BY random() with LIMIT is an inherently random subset: drop the limit
		for _, c := range sp.Calls {
			if c.Pos == "orderby" && (c.Fn == "random" || c.Fn == "randomblob") {
				drop("limit")
				drop("limit-offset")
				drop("limit-comma")
				for i := range sp.Calls {
					if sp.Calls[i].Pos == "limit" {
						sp.Calls[i].Pos = "where"
					}
				}
			}
		}
	}
	if sp.has("not-indexed") && (sp.has("table-alias") || sp.has("schema-prefix") || sp.has("qid-dq") || sp.has("qid-br") || sp.has("qid-bt")) {
		drop("not-indexed")
	}
	if sp.Kind == "insert" {
		n := 0
		for _, t := range []string{"replace-into", "or-replace", "or-ignore"} {
			if sp.has(t) {
				n++
				if n > 1 {
					drop(t)
				}
			}
		}
	}
	// wrappers must fit the role of the position; columns only where t is in scope
	for i := range sp.Calls {
		c := &sp.Calls[i]
		role := posRole(c.Pos)
		if role == "ord" {
			if isTimeFn(c.Fn) {
				c.Wrap = "" // rendered as: ts < call
			} else {
				role = "out"
			}
		}
		noCols := false
		switch c.Pos {
		case "value", "upset", "upwhere", "cte", "fromsub", "limit":
			noCols = true
		case "scalar":
			noCols = sp.Kind == "insert"
		}
		if sp.Kind == "values" || sp.Kind == "upsert" {
			noCols = true
		}
		if noCols && c.Form == "col" {
			if c.Fn == "randomblob" {
				c.Form = "expr"
			} else {
				c.Form = "lit"
			}
		}
		if noCols && isTimeFn(c.Fn) && (c.Wrap == "lt" || c.Wrap == "ne") && role == "cond" {
			c.Wrap = ""
		}
		switch c.Fn {
		case "random":
			if role != "out" && !inList(randExWraps, c.Wrap) {
				c.Wrap = "and0"
			}
			if role == "out" && !inList(randRawWraps, c.Wrap) && !inList(randExWraps, c.Wrap) {
				c.Wrap = ""
			}
		case "randomblob":
			if role != "out" || (!inList(blobRawWraps, c.Wrap) && !inList(blobExWraps, c.Wrap)) {
				c.Wrap = ""
			}
		default:
			if role == "out" && !inList(timeOutWraps, c.Wrap) {
				c.Wrap = ""
			}
			if role == "cond" && !inList(timeCondWraps, c.Wrap) {
				c.Wrap = ""
			}
			if role == "int" {
				c.Wrap = ""
			}
		}
	}
}

// ---------------------------------------------------------------------------
// Signature / finding key of a spec: only what differs from the plainest form.
// ---------------------------------------------------------------------------

func (c *call) sig() string {
	if c.Dead {
		return ""
	}
	s := c.Fn
	if c.Form != "" && !(c.Fn == "randomblob" && c.Form == "lit") {
		s += "/" + c.Form
	}
	if c.Fn == "timediff" && c.Side != 0 {
		s += fmt.Sprintf("/side%d", c.Side)
	}
	if c.Gap != "" {
		s += "/gap"
	}
	if c.Case != 0 {
		s += "/case"
	}
	for _, m := range c.Mods {
		s += "/mod:" + strings.ReplaceAll(m, " ", "_")
	}
	if c.Fn == "strftime" && c.Fmt != "%s" {
		s += "/fmt"
	}
	if c.Fn == "randomblob" && c.Form == "lit" && c.N != 4 {
		s += fmt.Sprintf("/n%d", c.N)
	}
	if c.Wrap != "" {
		s += "/wrap:" + c.Wrap
	}
	return s
}

func (sp *spec) sig() string {
	var parts []string
	if sp.Kind != "select" {
		parts = append(parts, sp.Kind)
	}
	if sp.Ret == 1 {
		parts = append(parts, "returning")
	} else if sp.Ret == 2 {
		parts = append(parts, "returning-star")
	}
	var cs []string
	for i := range sp.Calls {
		c := &sp.Calls[i]
		if s := c.sig(); s != "" {
			if c.Pos != defaultPos(sp.Kind) {
				s += "@" + c.Pos
			}
			cs = append(cs, s)
		}
	}
	sort.Strings(cs)
	parts = append(parts, cs...)
	fs := append([]string(nil), sp.Feats...)
	sort.Strings(fs)
	parts = append(parts, fs...)
	if len(parts) == 0 {
		return "plain"
	}
	return strings.Join(parts, "+")
}

// systematic returns the one-construct-at-a-time specs: every feature with the
// plainest call (and alone), every position of every kind, every function in
// every form, every modifier / format / gap / wrapper.
func systematic() []*spec {
	var out []*spec
	add := func(sp *spec) {
		normalize(sp)
		out = append(out, sp)
	}
	kinds := []string{"select", "insert", "update", "delete", "upsert", "insert-select", "values"}
	plain := func(kind string) call {
		if posRole(defaultPos(kind)) == "cond" {
			return call{Fn: "date", Form: "now", Pos: defaultPos(kind)}
		}
		return call{Fn: "random", Pos: defaultPos(kind)}
	}
	for i := range featDefs {
		f := &featDefs[i]
		for _, k := range kinds {
			sp := &spec{Kind: k}
			if f.item != "" && k != "select" {
				sp.Ret = 1
			}
			if !featApplies(f, sp) {
				continue
			}
			with := sp.clone()
			with.Feats = []string{f.tag}
			with.Calls = []call{plain(k)}
			add(with)
			alone := sp.clone()
			alone.Feats = []string{f.tag}
			add(alone)
			break
		}
	}
	for _, k := range kinds {
		seen := map[string]bool{}
		for _, pos := range kindPos[k] {
			if seen[pos] {
				continue
			}
			seen[pos] = true
			for _, c := range []call{{Fn: "random"}, {Fn: "date", Form: "now"}, {Fn: "randomblob", Form: "lit", N: 4, Wrap: "hex"}} {
				c.Pos = pos
				for _, ret := range []int{0, 1, 2} {
					if ret > 0 && (k == "select" || k == "values") {
						continue
					}
					add(&spec{Kind: k, Ret: ret, Calls: []call{c}})
				}
			}
		}
	}
	forms := []string{"implicit", "now", "NOW", "Now", "dqnow", "paren", "param", "lit", "col"}
	for _, fn := range timeFns {
		for _, form := range forms {
			if fn == "timediff" {
				if form == "implicit" {
					continue
				}
				for side := 0; side < 3; side++ {
					add(&spec{Kind: "select", Calls: []call{{Fn: fn, Form: form, Side: side, Pos: "item"}}})
				}
				continue
			}
			add(&spec{Kind: "select", Calls: []call{{Fn: fn, Form: form, Fmt: "%Y-%m-%d %H:%M:%S", Pos: "item"}}})
			add(&spec{Kind: "insert", Calls: []call{{Fn: fn, Form: form, Fmt: "%s", Pos: "value"}}})
		}
		for _, g := range gapPool {
			add(&spec{Kind: "select", Calls: []call{{Fn: fn, Form: "now", Fmt: "%s", Gap: g, Pos: "item"}}})
		}
		add(&spec{Kind: "select", Calls: []call{{Fn: fn, Form: "now", Fmt: "%s", Case: 1, Pos: "item"}}})
		add(&spec{Kind: "select", Calls: []call{{Fn: fn, Form: "now", Fmt: "%s", Case: 2, Pos: "item"}}})
	}
	for _, m := range append(append([]string{}, modPool...), rareMods...) {
		for _, fn := range []string{"date", "datetime", "unixepoch", "strftime"} {
			add(&spec{Kind: "select", Calls: []call{{Fn: fn, Form: "now", Fmt: "%Y-%m-%d %H:%M:%f", Mods: []string{m}, Pos: "item"}}})
		}
	}
	for _, f := range fmtPool {
		add(&spec{Kind: "select", Calls: []call{{Fn: "strftime", Form: "now", Fmt: f, Pos: "item"}}})
		add(&spec{Kind: "select", Calls: []call{{Fn: "strftime", Form: "implicit", Fmt: f, Pos: "item"}}})
	}
	for _, w := range timeOutWraps {
		add(&spec{Kind: "select", Calls: []call{{Fn: "datetime", Form: "now", Wrap: w, Pos: "item"}}})
	}
	for _, w := range timeCondWraps {
		add(&spec{Kind: "select", Calls: []call{{Fn: "datetime", Form: "now", Wrap: w, Pos: "where"}}})
	}
	for _, w := range append(append([]string{}, randRawWraps...), randExWraps...) {
		add(&spec{Kind: "select", Calls: []call{{Fn: "random", Wrap: w, Pos: "item"}}})
		add(&spec{Kind: "select", Calls: []call{{Fn: "random", Wrap: w, Pos: "where"}}})
		add(&spec{Kind: "select", Calls: []call{{Fn: "random", Wrap: w, Gap: " ", Pos: "item"}}})
	}
	for _, g := range gapPool {
		add(&spec{Kind: "select", Calls: []call{{Fn: "random", Gap: g, Pos: "item"}}})
		add(&spec{Kind: "select", Calls: []call{{Fn: "randomblob", Form: "lit", N: 4, Gap: g, Pos: "item"}}})
	}
	for _, n := range []int{0, 1, 3, 4, 8, 16} {
		for _, w := range append(append([]string{}, blobRawWraps...), blobExWraps...) {
			add(&spec{Kind: "select", Calls: []call{{Fn: "randomblob", Form: "lit", N: n, Wrap: w, Pos: "item"}}})
		}
	}
	for _, form := range []string{"expr", "col"} {
		add(&spec{Kind: "select", Calls: []call{{Fn: "randomblob", Form: form, N: 4, Pos: "item"}}})
	}
	add(&spec{Kind: "select", Calls: []call{{Fn: "random", Case: 1, Pos: "item"}}})
	add(&spec{Kind: "select", Calls: []call{{Fn: "random", Case: 2, Pos: "item"}}})
	add(&spec{Kind: "select", Calls: []call{{Fn: "random", Pos: "orderby"}}})
	add(&spec{Kind: "select"})
	return out
}
