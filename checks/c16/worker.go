package c16

import (
	"context"
	"encoding/json"
	"fmt"
	"os"
	"runtime"
	"strconv"
	"strings"
	"sync"
	"sync/atomic"
	"time"

	"github.com/rqlite/rqlite/v10/command/proto"
	"github.com/rqlite/rqlite/v10/vexport"
	"verif/internal/hcluster"
	"verif/internal/vf"
)

const hbTimeout = 500 * time.Millisecond

var workerStart = time.Now()

// ---- hook gating: the fsm.apply.entry hook is process-global; each Store's
// FSM is driven by one long-lived raft goroutine (runFSM), so the delay is
// applied only when the hook fires on the chosen node's FSM goroutine.
var (
	delayGoid atomic.Int64
	delayNs   atomic.Int64
	seenMu    sync.Mutex
	seenGoids = map[int64]bool{}
	delayed   atomic.Int64
)

func goid() int64 {
	var b [64]byte
	n := runtime.Stack(b[:], false)
	s := strings.TrimPrefix(string(b[:n]), "goroutine ")
	if i := strings.IndexByte(s, ' '); i > 0 {
		id, _ := strconv.ParseInt(s[:i], 10, 64)
		return id
	}
	return -1
}

func installHook() {
	vexport.HookOn("fsm.apply.entry", func() {
		g := goid()
		seenMu.Lock()
		seenGoids[g] = true
		seenMu.Unlock()
		if g == delayGoid.Load() {
			if d := delayNs.Load(); d > 0 {
				delayed.Add(1)
				time.Sleep(time.Duration(d))
			}
		}
	})
}

func goidSet() map[int64]bool {
	seenMu.Lock()
	defer seenMu.Unlock()
	m := map[int64]bool{}
	for k := range seenGoids {
		m[k] = true
	}
	return m
}

type wnode struct {
	*hcluster.Node
	role   string
	fsmG   int64
	events *atomic.Int64
}

type wk struct {
	cl    *hcluster.Cluster
	nodes []*wnode // n1 (bootstrap leader), n2 voter, n3 non-voter
	rows  int64    // acknowledged inserts
	res   *scnResult
	// consumed by the next linearizable query: hook point to stall at and what
	// to do while stalled (runs on the querying goroutine, inside Store.Query)
	nextStall   string
	nextDisturb func()
}

func (w *wk) note(format string, a ...any) {
	w.res.Notes = append(w.res.Notes, fmt.Sprintf(format, a...))
}

func watchLeader(n *hcluster.Node) *atomic.Int64 {
	cnt := &atomic.Int64{}
	ch := make(chan bool, 4096)
	n.Store.RegisterLeaderChange(ch)
	go func() {
		for range ch {
			cnt.Add(1)
		}
	}()
	return cnt
}

func opts(id string) hcluster.Options {
	return hcluster.Options{ID: id, HeartbeatTimeout: hbTimeout, ElectionTimeout: hbTimeout, LeaderLease: hbTimeout, NoSnapshotOnClose: true}
}

func (w *wk) execOn(n *hcluster.Node, sql string) (uint64, error) {
	er := &proto.ExecuteRequest{Request: &proto.Request{Statements: []*proto.Statement{{Sql: sql}}}}
	rs, idx, err := n.Store.Execute(context.Background(), er)
	if err != nil {
		return 0, err
	}
	for _, r := range rs {
		if e := r.GetError(); e != "" {
			return 0, fmt.Errorf("%s", e)
		}
	}
	return idx, nil
}

// insert adds one uniquely tagged row through the current leader. A failed
// attempt may or may not have been applied, so a retry uses the same tag and
// the row count is taken from the table afterwards (INSERT OR IGNORE on a
// unique tag keeps retries idempotent).
func (w *wk) insert() error {
	var err error
	for try := 0; try < 40; try++ {
		l := w.leader()
		if l == nil {
			err = fmt.Errorf("no leader")
			time.Sleep(250 * time.Millisecond)
			continue
		}
		_, err = w.execOn(l.Node, fmt.Sprintf("INSERT OR IGNORE INTO t(id, v) VALUES(%d, 'r%d')", w.rows+1, w.rows+1))
		if err == nil {
			w.rows++
			return nil
		}
		time.Sleep(250 * time.Millisecond)
	}
	return fmt.Errorf("timeout: insert: %v", err)
}

func (w *wk) leader() *wnode {
	for _, n := range w.nodes {
		if n.Store.IsLeader() {
			return n
		}
	}
	return nil
}

func (w *wk) waitLeader(d time.Duration) *wnode {
	deadline := time.Now().Add(d)
	for time.Now().Before(deadline) {
		if l := w.cl.WaitLeader(500 * time.Millisecond); l != nil {
			for _, n := range w.nodes {
				if n.Node == l {
					return n
				}
			}
		}
	}
	return nil
}

// fsmOf returns the node's applied command index.
func fsmOf(n *hcluster.Node) uint64 {
	s := takeSample(n)
	return s.FsmIdx
}

func (w *wk) waitApplied(d time.Duration) bool {
	deadline := time.Now().Add(d)
	for time.Now().Before(deadline) {
		l := w.leader()
		if l != nil {
			want := fsmOf(l.Node)
			ok := true
			for _, n := range w.nodes {
				if fsmOf(n.Node) != want {
					ok = false
				}
			}
			if ok {
				return true
			}
		}
		time.Sleep(40 * time.Millisecond)
	}
	return false
}

func takeSample(n *hcluster.Node) (s sample) {
	st, err := n.Store.Stats()
	s.AtNs = time.Since(workerStart).Nanoseconds()
	if err != nil || st == nil {
		return s
	}
	defer func() {
		if recover() != nil {
			s.OK = false
		}
	}()
	s.FsmIdx = st["fsm_index"].(uint64)
	if t := st["fsm_update_time"].(time.Time); !t.IsZero() {
		s.UpdNs = t.UnixNano()
	}
	if t := st["leader_appended_at_time"].(time.Time); !t.IsZero() {
		s.AppNs = t.UnixNano()
	}
	rs := st["raft"].(map[string]any)
	s.CmdIdx = rs["transport"].(map[string]any)["command_commit_index"].(uint64)
	if v, ok := rs["last_log_index"].(int64); ok && v > 0 {
		s.LastLog = uint64(v)
	}
	switch v := rs["last_contact"].(type) {
	case int64:
		s.ContactMs = float64(v)
	case string:
		if v == "never" {
			s.Never = true
		} else if d, err := time.ParseDuration(v); err == nil {
			s.ContactMs = float64(d.Nanoseconds()) / 1e6
		} else {
			return s
		}
	default:
		return s
	}
	s.OK = true
	return s
}

var levels = map[string]proto.ConsistencyLevel{
	"none": proto.ConsistencyLevel_NONE, "weak": proto.ConsistencyLevel_WEAK, "strong": proto.ConsistencyLevel_STRONG,
	"linearizable": proto.ConsistencyLevel_LINEARIZABLE, "auto": proto.ConsistencyLevel_AUTO,
}

// query performs one Store.Query directly on n with samples before and after.
func (w *wk) query(n *wnode, phase, level string, fresh time.Duration, strict, full bool, wantRows int64) obs {
	o := obs{Node: n.ID, Role: n.role, Phase: phase, Level: level, FreshMs: float64(fresh.Nanoseconds()) / 1e6, Strict: strict, Full: full, WantRows: wantRows}
	qr := &proto.QueryRequest{
		Request:         &proto.Request{Statements: []*proto.Statement{{Sql: "SELECT COUNT(*) FROM t"}}},
		Level:           levels[level],
		Freshness:       fresh.Nanoseconds(),
		FreshnessStrict: strict,
	}
	var verr error
	o.VoterB, verr = n.Store.IsVoter()
	if verr != nil {
		o.VoterErr = true
	}
	if full {
		o.B = takeSample(n.Node)
	}
	var rec *linRec
	if level == "linearizable" {
		// terms seen at the hook points inside the read-index path, on this goroutine
		rec = &linRec{node: n, stall: w.nextStall, disturb: w.nextDisturb}
		g := goid()
		linRecs.Store(g, rec)
		defer linRecs.Delete(g)
	}
	ev0 := n.events.Load()
	o.LeaderB = n.Store.IsLeader()
	rows, eff, _, err := n.Store.Query(context.Background(), qr)
	o.LeaderA = n.Store.IsLeader()
	if rec != nil {
		o.TermCI, o.TermVL = rec.termCI, rec.termVL
	}
	if full {
		o.A = takeSample(n.Node)
	}
	o.VoterA, verr = n.Store.IsVoter()
	if verr != nil {
		o.VoterErr = true
	}
	if err != nil {
		o.Err = err.Error()
	} else if len(rows) != 1 || rows[0].Error != "" {
		if len(rows) == 1 {
			o.Err = "row error: " + rows[0].Error
		} else {
			o.Err = "no rows"
		}
	} else {
		o.Served = true
		o.EffLevel = eff.String()
		if len(rows[0].Values) == 1 && len(rows[0].Values[0].Parameters) == 1 {
			o.Rows = rows[0].Values[0].Parameters[0].GetI()
		}
	}
	o.Events = n.events.Load() - ev0
	if o.Served && !o.LeaderB && !o.LeaderA && o.Events == 0 && (level == "weak" || level == "auto" || level == "linearizable" || level == "strong") {
		// leadership observations are delivered asynchronously: give them time
		time.Sleep(400 * time.Millisecond)
		o.Events = n.events.Load() - ev0
	}
	return o
}

func (w *wk) add(o obs) { w.res.Obs = append(w.res.Obs, o) }

func worker(args []string) {
	var caseNo int
	var seed int64
	fmt.Sscan(args[0], &caseNo)
	fmt.Sscan(args[1], &seed)
	tier := args[2]
	dir := args[3]
	res := runScenario(caseNo, seed, tier, dir)
	b, _ := json.Marshal(res)
	fmt.Println(string(b))
	os.Stdout.Sync()
	os.RemoveAll(dir)
	os.Exit(0) // do not wait for lingering goroutines
}

func runScenario(caseNo int, seed int64, tier, dir string) (res scnResult) {
	c := &vf.Ctx{ID: "C16", Seed: seed, Tier: tier}
	r := c.Rand(uint64(1000 + caseNo))
	kind := scnKinds[caseNo%len(scnKinds)]
	res = scnResult{Case: caseNo, Kind: kind, Params: map[string]any{}}
	defer func() {
		if p := recover(); p != nil {
			res.SetupErr = fmt.Sprintf("panic: %v", p)
		}
	}()
	if caseNo >= linTermBase {
		kind = "lin-term-change"
		res.Kind = kind
	}
	if caseNo >= catchUpBase {
		kind = "catch-up"
		res.Kind = kind
	}
	installHook()
	installLinHooks()
	defer os.RemoveAll(dir)
	cl := hcluster.New(dir)
	w := &wk{cl: cl, res: &res}
	fail := func(format string, a ...any) scnResult {
		res.SetupErr = fmt.Sprintf(format, a...)
		return res
	}
	// --- set-up: n1 bootstraps, n2 joins as voter, n3 as non-voter. The FSM
	// goroutine of each node is learned from the hook as the nodes appear.
	addNode := func(id, role string, voter bool) (*wnode, error) {
		before := goidSet()
		n, err := cl.Add(opts(id), voter)
		if err != nil {
			return nil, err
		}
		wn := &wnode{Node: n, role: role, events: watchLeader(n)}
		w.nodes = append(w.nodes, wn)
		if len(w.nodes) == 1 {
			if _, err := w.execOn(n, "CREATE TABLE IF NOT EXISTS t (id INTEGER PRIMARY KEY, v TEXT)"); err != nil {
				return nil, fmt.Errorf("timeout: create: %v", err)
			}
		} else if err := w.insert(); err != nil {
			return nil, err
		}
		if !w.waitApplied(30 * time.Second) {
			return nil, fmt.Errorf("timeout: %s did not catch up", id)
		}
		var fresh []int64
		for g := range goidSet() {
			if !before[g] {
				fresh = append(fresh, g)
			}
		}
		if len(fresh) != 1 {
			return nil, fmt.Errorf("timeout: could not identify FSM goroutine of %s (%d new)", id, len(fresh))
		}
		wn.fsmG = fresh[0]
		return wn, nil
	}
	if _, err := addNode("n1", "leader", true); err != nil {
		return fail("n1: %v", err)
	}
	if _, err := addNode("n2", "follower", true); err != nil {
		return fail("n2: %v", err)
	}
	if _, err := addNode("n3", "nonvoter", false); err != nil {
		return fail("n3: %v", err)
	}
	defer func() {
		delayNs.Store(0)
		done := make(chan struct{})
		go func() { cl.Close(); close(done) }()
		select {
		case <-done:
		case <-time.After(20 * time.Second):
		}
	}()
	l := w.waitLeader(30 * time.Second)
	if l == nil || l.ID == "n3" {
		return fail("timeout: no voter leads after set-up")
	}
	// roles follow the leadership as it is now (it may have moved during set-up)
	if l.ID == "n2" {
		w.nodes[0], w.nodes[1] = w.nodes[1], w.nodes[0]
	}
	w.nodes[0].role, w.nodes[1].role = "leader", "follower"
	for i := 0; i < 1+r.IntN(3); i++ {
		if err := w.insert(); err != nil {
			return fail("insert: %v", err)
		}
	}
	if !w.waitApplied(20 * time.Second) {
		return fail("timeout: not converged")
	}
	n1, n2, n3 := w.nodes[0], w.nodes[1], w.nodes[2]

	switch kind {
	case "steady":
		scnSteady(w, r)
	case "leader-move":
		scnLeaderMove(w, r)
	case "partition":
		target := []*wnode{n2, n3}[r.IntN(2)]
		scnPartition(w, r, target)
	case "partition-leader":
		scnPartitionLeader(w, r, n1)
	case "strict-lag":
		target := []*wnode{n2, n3}[r.IntN(2)]
		scnStrictLag(w, r, target)
	case "restart":
		target := []*wnode{n2, n3}[r.IntN(2)]
		scnRestart(w, r, target)
	case "lin-apply":
		scnLinApply(w, r, n1)
	case "lin-term-change":
		scnLinTerm(w, r, caseNo, seed, n1, n2)
	case "catch-up":
		scnCatchUp(w, r, caseNo-catchUpBase, n1, n2, n3)
	}
	return res
}

var allLevels = []string{"none", "weak", "strong", "linearizable", "auto"}

// scnSteady: healthy cluster, every level on every node, with and without a
// generous freshness bound, in seeded order.
func scnSteady(w *wk, r interface{ IntN(int) int }) {
	type call struct {
		n      *wnode
		level  string
		fresh  time.Duration
		strict bool
	}
	var calls []call
	for _, n := range w.nodes {
		for _, lv := range allLevels {
			calls = append(calls, call{n, lv, 0, false})
			if lv == "none" {
				calls = append(calls, call{n, lv, 5 * time.Second, false}, call{n, lv, 5 * time.Second, true}, call{n, lv, time.Duration(2+r.IntN(8)) * time.Second, r.IntN(2) == 0})
			}
		}
	}
	for i := len(calls) - 1; i > 0; i-- {
		j := r.IntN(i + 1)
		calls[i], calls[j] = calls[j], calls[i]
	}
	w.res.Params["order"] = fmt.Sprintf("%s/%s/%s...", calls[0].n.ID+":"+calls[0].level, calls[1].n.ID+":"+calls[1].level, calls[2].n.ID+":"+calls[2].level)
	for i, cl := range calls {
		if i%7 == 3 {
			w.insert()
			w.waitApplied(10 * time.Second)
		}
		o := w.query(cl.n, "steady", cl.level, cl.fresh, cl.strict, cl.level == "none" && cl.fresh > 0, w.rows)
		w.add(o)
	}
}

// scnLeaderMove: leadership is transferred between the voters while weak,
// auto and linearizable reads are fired concurrently at all nodes.
func scnLeaderMove(w *wk, r interface{ IntN(int) int }) {
	moves := 1 + r.IntN(2)
	w.res.Params["moves"] = moves
	var mu sync.Mutex
	stop := make(chan struct{})
	var wg sync.WaitGroup
	for _, n := range w.nodes {
		for _, lv := range []string{"weak", "auto", "linearizable"} {
			wg.Add(1)
			go func(n *wnode, lv string) {
				defer wg.Done()
				for i := 0; i < 400; i++ {
					select {
					case <-stop:
						return
					default:
					}
					o := w.query(n, "move", lv, 0, false, false, -1)
					mu.Lock()
					w.add(o)
					mu.Unlock()
					time.Sleep(5 * time.Millisecond)
				}
			}(n, lv)
		}
	}
	for m := 0; m < moves; m++ {
		time.Sleep(time.Duration(100+r.IntN(200)) * time.Millisecond)
		if l := w.leader(); l != nil {
			if err := l.Store.Stepdown(true, ""); err != nil {
				w.note("stepdown: %v", err)
			}
		}
		w.waitLeader(10 * time.Second)
	}
	time.Sleep(200 * time.Millisecond)
	close(stop)
	wg.Wait()
	// thin out: keep every observation around a change, and a sample of the rest
	var keep []obs
	for i, o := range w.res.Obs {
		if o.Events != 0 || o.LeaderA != o.LeaderB || i%5 == 0 || (o.Served && !o.LeaderA) {
			keep = append(keep, o)
		}
	}
	w.res.Obs = keep
}

// scnPartition: the target (follower or non-voter) is cut off from all other
// nodes for longer than the freshness bound.
func scnPartition(w *wk, r interface{ IntN(int) int }, target *wnode) {
	bound := time.Duration(300+100*r.IntN(10)) * time.Millisecond
	margin := time.Second
	w.res.Params["target"] = target.role
	w.res.Params["bound_ms"] = bound.Milliseconds()
	// healthy first
	w.add(w.query(target, "healthy", "none", 5*time.Second, false, true, -1))
	w.add(w.query(target, "healthy", "none", 5*time.Second, true, true, -1))
	cut := time.Now()
	w.cl.Net.Isolate(target.ID, w.cl.Names())
	time.Sleep(bound + margin)
	for i := 0; i < 3; i++ {
		for _, strict := range []bool{false, true} {
			o := w.query(target, "cut", "none", bound, strict, true, -1)
			o.CutMs = float64(time.Since(cut).Milliseconds())
			w.add(o)
		}
		w.add(w.query(target, "cut", "none", 0, false, true, -1))
		w.add(w.query(target, "cut", "weak", 0, false, false, -1))
		w.add(w.query(target, "cut", "auto", 0, false, false, -1))
		w.add(w.query(target, "cut", "linearizable", 0, false, false, -1))
		// a bound far larger than the cut: still within it
		w.add(w.query(target, "cut", "none", time.Minute, false, true, -1))
		time.Sleep(time.Duration(50+r.IntN(200)) * time.Millisecond)
	}
	w.cl.Net.HealAll()
	if w.waitLeader(20*time.Second) == nil {
		w.note("no leader after heal")
		return
	}
	// wait for contact to resume, then a generous bound must be served again
	deadline := time.Now().Add(15 * time.Second)
	for time.Now().Before(deadline) {
		if s := takeSample(target.Node); s.OK && !s.Never && s.ContactMs < 300 && !target.Store.IsLeader() {
			break
		}
		time.Sleep(50 * time.Millisecond)
	}
	w.add(w.query(target, "healed", "none", 5*time.Second, false, true, -1))
	w.add(w.query(target, "healed", "none", 5*time.Second, true, true, -1))
}

// scnPartitionLeader: the leader is cut off from everyone; while it still
// believes it is leader weak reads are allowed, linearizable reads are not
// (no quorum can confirm).
func scnPartitionLeader(w *wk, r interface{ IntN(int) int }, l *wnode) {
	// make sure linearizable reads are real ones (not upgraded to strong)
	w.add(w.query(l, "healthy", "strong", 0, false, false, w.rows))
	pre := w.query(l, "healthy", "linearizable", 0, false, false, w.rows)
	w.add(pre)
	wait := time.Duration(100+r.IntN(150)) * time.Millisecond
	w.res.Params["wait_ms"] = wait.Milliseconds()
	cut := time.Now()
	w.cl.Net.Isolate(l.ID, w.cl.Names())
	time.Sleep(wait)
	streak := 0
	for i := 0; i < 12; i++ {
		o := w.query(l, "cut", "linearizable", 0, false, false, -1)
		o.CutMs = float64(time.Since(cut).Milliseconds())
		if o.Served {
			streak++
		} else {
			streak = 0
		}
		o.Streak = streak
		w.add(o)
		ow := w.query(l, "cut", "weak", 0, false, false, -1)
		ow.CutMs = o.CutMs
		w.add(ow)
		time.Sleep(40 * time.Millisecond)
	}
	// after the lease it must have stepped down; none+bound on it is judged by the generic rule
	time.Sleep(2 * hbTimeout)
	w.add(w.query(l, "cut-late", "weak", 0, false, false, -1))
	w.add(w.query(l, "cut-late", "auto", 0, false, false, -1))
	w.add(w.query(l, "cut-late", "none", 200*time.Millisecond, false, true, -1))
	w.cl.Net.HealAll()
	w.waitLeader(20 * time.Second)
}

// scnStrictLag: the target's FSM goroutine sleeps d at every apply; the leader
// commits three writes at once, so the target is behind for about 3d and the
// entry it applied last was appended (about) d, 2d before it was applied.
func scnStrictLag(w *wk, r interface{ IntN(int) int }, target *wnode) {
	d := time.Duration(600+100*r.IntN(5)) * time.Millisecond
	small := d / 3
	big := 4*d + 3*time.Second
	w.res.Params["target"] = target.role
	w.res.Params["delay_ms"] = d.Milliseconds()
	w.res.Params["small_ms"] = small.Milliseconds()
	type variant struct {
		fresh  time.Duration
		strict bool
	}
	vs := []variant{{small, true}, {big, true}, {small, false}, {0, false}, {d + d/2, true}}
	round := func(phase string, k int) {
		v := vs[k%len(vs)]
		w.add(w.query(target, phase, "none", v.fresh, v.strict, true, -1))
	}
	for k := 0; k < len(vs); k++ {
		round("before", k)
	}
	delayGoid.Store(target.fsmG)
	delayNs.Store(d.Nanoseconds())
	nw := 3
	for i := 0; i < nw; i++ {
		if err := w.insert(); err != nil {
			w.note("insert: %v", err)
		}
	}
	l := w.leader()
	if l == nil {
		w.note("leader lost")
		delayNs.Store(0)
		return
	}
	lf := fsmOf(l.Node)
	deadline := time.Now().Add(time.Duration(nw+2)*d + 10*time.Second)
	k := r.IntN(len(vs))
	for time.Now().Before(deadline) {
		if fsmOf(target.Node) >= lf {
			break
		}
		round("lagging", k)
		k++
		time.Sleep(time.Duration(10+r.IntN(40)) * time.Millisecond)
	}
	delayNs.Store(0)
	w.res.Params["delayed_applies"] = delayed.Load()
	if !w.waitApplied(20 * time.Second) {
		w.note("target did not catch up")
		return
	}
	for k := 0; k < len(vs); k++ {
		o := w.query(target, "caught-up", "none", vs[k].fresh, vs[k].strict, true, -1)
		o.LeaderFsm = lf
		w.add(o)
	}
	// also every other node, which was never delayed
	for _, n := range w.nodes {
		if n != target {
			w.add(w.query(n, "caught-up", "none", small, true, true, -1))
		}
	}
}

// scnRestart: the target is restarted on the same directory and address after
// the last write is older than the bound; no write follows, so it is fully
// caught up when asked.
func scnRestart(w *wk, r interface{ IntN(int) int }, target *wnode) {
	bound := time.Duration(500+100*r.IntN(10)) * time.Millisecond
	w.res.Params["target"] = target.role
	w.res.Params["bound_ms"] = bound.Milliseconds()
	w.add(w.query(target, "before-restart", "none", bound, true, true, -1))
	time.Sleep(bound + 500*time.Millisecond)
	nn, err := w.cl.Restart(target.Node)
	if err != nil {
		w.res.SetupErr = "timeout: restart: " + err.Error()
		return
	}
	target.Node = nn
	target.events = watchLeader(nn)
	if w.waitLeader(20*time.Second) == nil || !w.waitApplied(30*time.Second) {
		w.res.SetupErr = "timeout: not converged after restart"
		return
	}
	l := w.leader()
	lf := fsmOf(l.Node)
	// wait for steady contact
	deadline := time.Now().Add(15 * time.Second)
	for time.Now().Before(deadline) {
		if s := takeSample(target.Node); s.OK && !s.Never && s.ContactMs < 200 {
			break
		}
		time.Sleep(50 * time.Millisecond)
	}
	for i := 0; i < 3; i++ {
		for _, v := range []struct {
			f time.Duration
			s bool
		}{{bound, true}, {bound, false}, {0, false}, {5 * time.Second, true}} {
			o := w.query(target, "after-restart", "none", v.f, v.s, true, -1)
			o.LeaderFsm = lf
			w.add(o)
		}
		w.add(w.query(target, "after-restart", "auto", 0, false, false, -1))
		w.add(w.query(target, "after-restart", "weak", 0, false, false, -1))
		time.Sleep(100 * time.Millisecond)
	}
	// a write arrives: the node is told about a new command entry
	if err := w.insert(); err == nil && w.waitApplied(20*time.Second) {
		o := w.query(target, "after-restart-write", "none", bound, true, true, -1)
		w.add(o)
	}
}

// scnLinApply: the leader's own FSM goroutine is delayed; a write is committed
// (quorum reached) but not yet applied when a linearizable read starts.
func scnLinApply(w *wk, r interface{ IntN(int) int }, l *wnode) {
	d := time.Duration(400+100*r.IntN(5)) * time.Millisecond
	w.res.Params["delay_ms"] = d.Milliseconds()
	w.add(w.query(l, "prep", "strong", 0, false, false, w.rows))
	pre := w.query(l, "prep", "linearizable", 0, false, false, w.rows)
	w.add(pre)
	rounds := 2 + r.IntN(2)
	for k := 0; k < rounds; k++ {
		ci0, err := l.Store.CommitIndex()
		if err != nil {
			return
		}
		delayGoid.Store(l.fsmG)
		delayNs.Store(d.Nanoseconds())
		type wr struct {
			idx uint64
			err error
		}
		done := make(chan wr, 1)
		want := w.rows + 1
		go func() {
			idx, err := w.execOn(l.Node, fmt.Sprintf("INSERT INTO t(id, v) VALUES(%d, 'lin%d')", want, want))
			done <- wr{idx, err}
		}()
		// wait until the write is committed (commit index moved), not yet applied
		deadline := time.Now().Add(5 * time.Second)
		var ci uint64
		for time.Now().Before(deadline) {
			ci, _ = l.Store.CommitIndex()
			if ci > ci0 {
				break
			}
			time.Sleep(2 * time.Millisecond)
		}
		o := w.query(l, "racing-apply", "linearizable", 0, false, false, want)
		o.CommitB = ci
		delayNs.Store(0)
		res := <-done
		if res.err != nil {
			w.note("write: %v", res.err)
			return
		}
		w.rows = want
		o.WriteIdx = res.idx
		w.add(o)
		w.waitApplied(10 * time.Second)
	}
	// The leader's last applied entry now carries an apply lag of about d.
	// Hand leadership to the other voter: the old leader becomes a follower
	// that has applied everything and is sent no further command entry.
	bound := d / 2
	if err := l.Store.Stepdown(true, ""); err != nil {
		w.note("stepdown: %v", err)
		return
	}
	nl := w.waitLeader(20 * time.Second)
	if nl == nil || nl == l || !w.waitApplied(20*time.Second) {
		w.note("no new leader after stepdown")
		return
	}
	lf := fsmOf(nl.Node)
	deadline := time.Now().Add(15 * time.Second)
	for time.Now().Before(deadline) {
		if s := takeSample(l.Node); s.OK && !s.Never && s.ContactMs < 150 && !l.Store.IsLeader() {
			break
		}
		time.Sleep(50 * time.Millisecond)
	}
	for i := 0; i < 3; i++ {
		o := w.query(l, "after-stepdown", "none", bound, true, true, -1)
		o.LeaderFsm = lf
		w.add(o)
		w.add(w.query(l, "after-stepdown", "none", bound, false, true, -1))
		w.add(w.query(l, "after-stepdown", "weak", 0, false, false, -1))
		time.Sleep(50 * time.Millisecond)
	}
}
