// Command vcheck is the single driver binary of the verification machinery:
// one sub-command per property plus child-process workers.
package main

import (
	_ "verif/checks/c19"
	"verif/internal/vf"
)

func main() { vf.Main() }
