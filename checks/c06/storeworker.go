package c06

// Store-level part: a real single-node Store (in-process, harness A) takes
// user-requested snapshots while harness-owned readers block the checkpoint.
// After every failed snapshot the WAL staging directory must be unchanged; at
// the end the node is restarted without its clean-snapshot marker, so the
// database is rebuilt from the snapshot store (full snapshot + the segments of
// all successful incremental snapshots), and must equal the live database as
// it was before the restart.

import (
	"context"
	"encoding/json"
	"errors"
	"fmt"
	"math/rand/v2"
	"os"
	"path/filepath"
	"sort"
	"strings"
	"time"

	command "github.com/rqlite/rqlite/v10/command/proto"
	"github.com/rqlite/rqlite/v10/store"
	"verif/internal/hcluster"
	"verif/internal/sqlref"
	"verif/internal/vf"
)

type storeRound struct {
	Writes  int    `json:"writes"`  // write transactions before the reader decision
	Reader  string `json:"reader"`  // none | old (before the last write) | latest (after all writes) | both
	Release string `json:"release"` // after (stop readers after the attempt) | keep (keep into the next round)
}

type storeSchedule struct {
	No     int          `json:"no"`
	Seed   uint64       `json:"seed"`
	Rounds []storeRound `json:"rounds"`
}

func init() {
	vf.RegisterWorker("c06store", func(args []string) {
		vf.ServeJSON(func(req json.RawMessage) any {
			var s storeSchedule
			if err := json.Unmarshal(req, &s); err != nil {
				return &result{HarnessErr: "bad request: " + err.Error()}
			}
			return runStoreSchedule(&s)
		})
	})
}

func listDir(dir string) []string {
	var out []string
	filepath.Walk(dir, func(p string, info os.FileInfo, err error) error {
		if err != nil || info.IsDir() {
			return nil
		}
		rel, _ := filepath.Rel(dir, p)
		out = append(out, fmt.Sprintf("%s:%d", rel, info.Size()))
		return nil
	})
	sort.Strings(out)
	return out
}

func runStoreSchedule(s *storeSchedule) (res *result) {
	res = &result{Counts: map[string]int64{}}
	defer func() {
		if p := recover(); p != nil {
			res.Viol = append(res.Viol, viol{"store:panic", fmt.Sprint(p)})
		}
	}()
	base := vf.TempDir("c06s")
	defer os.RemoveAll(base)
	cl := hcluster.New(base)
	defer cl.Close()
	opts := hcluster.Options{ID: "n1", SnapshotThreshold: 1 << 40, SnapshotInterval: time.Hour, NoSnapshotOnClose: true,
		Tune: func(st *store.Store) { st.SnapshotThresholdWALSize = 1 << 40 }}
	n, err := cl.Add(opts, true)
	if err != nil {
		res.HarnessErr = "node: " + err.Error()
		return
	}
	st := n.Store
	dbPath := filepath.Join(n.Dir, "db.sqlite")
	staging := filepath.Join(n.Dir, "wal-staging")
	ctx := context.Background()
	exec := func(stmts ...string) error {
		req := &command.ExecuteRequest{Request: &command.Request{Transaction: true}}
		for _, q := range stmts {
			req.Request.Statements = append(req.Request.Statements, &command.Statement{Sql: q})
		}
		resp, _, err := st.Execute(ctx, req)
		if err != nil {
			return err
		}
		for _, x := range resp {
			if e := x.GetError(); e != "" {
				return errors.New(e)
			}
			if x.GetE() != nil && x.GetE().GetError() != "" {
				return errors.New(x.GetE().GetError())
			}
		}
		return nil
	}
	rg := rand.New(rand.NewPCG(s.Seed, 77))
	write := func() error {
		switch rg.IntN(10) {
		case 0, 1, 2:
			m := 2 + rg.IntN(4)
			return exec(fmt.Sprintf("UPDATE t SET k=k+1, v=%s WHERE id%%%d=%d", hexBlob(rg, 100+rg.IntN(900)), m, rg.IntN(m)))
		case 3:
			m := 3 + rg.IntN(4)
			return exec(fmt.Sprintf("DELETE FROM t WHERE id%%%d=%d", m, rg.IntN(m)), "UPDATE t SET k=k+1 WHERE id=(SELECT min(id) FROM t)")
		default:
			var qs []string
			for i, k := 0, 1+rg.IntN(12); i < k; i++ {
				qs = append(qs, fmt.Sprintf("INSERT INTO t(k,v) VALUES(%d,%s)", rg.IntN(1000), hexBlob(rg, 200+rg.IntN(1800))))
			}
			return exec(qs...)
		}
	}
	if err := exec("CREATE TABLE t(id INTEGER PRIMARY KEY, k INT, v BLOB)", "CREATE INDEX tk ON t(k)"); err != nil {
		res.HarnessErr = "schema: " + err.Error()
		return
	}
	if err := write(); err != nil {
		res.HarnessErr = "write: " + err.Error()
		return
	}
	// the first snapshot is a full one
	if err := st.Snapshot(0); err != nil {
		res.HarnessErr = "first snapshot: " + err.Error()
		return
	}
	var readers []*reader
	stopReaders := func() {
		for _, r := range readers {
			r.stop()
		}
		readers = nil
	}
	defer stopReaders()
	addReader := func() bool {
		r, err := startReader(dbPath)
		if err != nil {
			res.HarnessErr = "reader: " + err.Error()
			return false
		}
		readers = append(readers, r)
		res.Counts["store_reader_starts"]++
		return true
	}
	for i, rd := range s.Rounds {
		for w := 0; w < rd.Writes; w++ {
			if (rd.Reader == "old" || rd.Reader == "both") && w == rd.Writes-1 && rd.Writes > 0 {
				if !addReader() {
					return
				}
			}
			if err := write(); err != nil {
				res.HarnessErr = fmt.Sprintf("round %d write: %v", i, err)
				return
			}
			res.Counts["store_writes"]++
		}
		if rd.Reader == "latest" || rd.Reader == "both" {
			if !addReader() {
				return
			}
		}
		before := listDir(staging)
		err := st.Snapshot(0)
		after := listDir(staging)
		res.Counts["store_snapshot_attempts"]++
		switch {
		case err == nil:
			res.Outcomes = append(res.Outcomes, "S:ok")
			res.Counts["store_snapshots_ok"]++
			if len(readers) > 0 {
				res.Counts["store_snapshots_ok_with_reader"]++
			}
		case errors.Is(err, store.ErrNothingNewToSnapshot) || errors.Is(err, store.ErrNoWALToSnapshot) ||
			strings.Contains(err.Error(), "nothing new to snapshot"):
			res.Outcomes = append(res.Outcomes, "S:nothing")
			res.Counts["store_snapshots_nothing_new"]++
		default:
			res.Outcomes = append(res.Outcomes, "S:failed")
			res.Counts["store_snapshots_failed"]++
			if len(readers) == 0 {
				res.Viol = append(res.Viol, viol{"store:snapshot-failed-without-reader", fmt.Sprintf("round %d: snapshot failed although nothing blocks the checkpoint: %v", i, err)})
				return
			}
			if strings.Join(before, ",") != strings.Join(after, ",") {
				res.Viol = append(res.Viol, viol{"store:failed-attempt-left-segment", fmt.Sprintf("round %d: snapshot failed (%v) but the WAL staging directory changed: before %v after %v", i, err, before, after)})
				return
			}
			res.Counts["store_failed_staging_unchanged"]++
		}
		if rd.Release != "keep" {
			stopReaders()
		}
	}
	stopReaders()
	// closing snapshot with nothing in the way
	if err := write(); err != nil {
		res.HarnessErr = "closing write: " + err.Error()
		return
	}
	if err := st.Snapshot(0); err != nil {
		res.Viol = append(res.Viol, viol{"store:snapshot-failed-without-reader", fmt.Sprintf("closing snapshot failed although nothing blocks the checkpoint: %v", err)})
		return
	}
	res.Outcomes = append(res.Outcomes, "S:final-ok")
	live, err := sqlref.DumpFile(dbPath)
	if err != nil {
		res.HarnessErr = "dump live: " + err.Error()
		return
	}
	// restart from the snapshot store: without the marker the node discards its
	// database and rebuilds it from the newest snapshot
	if err := os.Remove(filepath.Join(n.Dir, "clean_snapshot")); err != nil {
		res.HarnessErr = "clean snapshot marker: " + err.Error()
		return
	}
	nn, err := cl.Restart(n)
	if err != nil {
		res.HarnessErr = "restart: " + err.Error()
		return
	}
	if _, err := nn.Store.WaitForLeader(20 * time.Second); err != nil {
		res.HarnessErr = "restart leader: " + err.Error()
		return
	}
	// wait until the (empty) tail of the log is applied
	time.Sleep(200 * time.Millisecond)
	rebuilt, err := sqlref.DumpFile(filepath.Join(nn.Dir, "db.sqlite"))
	if err != nil {
		res.Viol = append(res.Viol, viol{"store:rebuilt-unreadable", "database rebuilt from the snapshot store cannot be read: " + err.Error()})
		return
	}
	res.Counts["store_restores_compared"]++
	if rebuilt.Hash() != live.Hash() {
		res.Viol = append(res.Viol, viol{"store:rebuilt-differs", fmt.Sprintf("database rebuilt from the snapshot store (%d rows) differs from the live database before restart (%d rows):\n%s", rebuilt.Rows(), live.Rows(), sqlref.Diff(live, rebuilt))})
		return
	}
	res.Counts["store_restores_equal"]++
	return
}
