// Package c20: a request sent to a follower is either redirected or executed
// exactly once on the leader with the caller's credentials, and the leader's
// answer comes back unchanged; it is never executed on the follower
// (DESIGN §6 C20).
package c20

import (
	"encoding/json"
	"fmt"
	"os"
	"path/filepath"
	"sort"
	"strings"
	"sync"
	"time"

	"verif/internal/vf"
)

func init() {
	vf.Register("C20", "exploration", run)
	vf.RegisterWorker("c20", worker)
}

func genCase(no int) caseDef {
	cd := caseDef{No: no}
	switch no % 4 {
	case 0:
		cd.Variant, cd.AuthNodes = "store-on-n1", []string{"n1"}
	case 1:
		cd.Variant, cd.AuthNodes = "store-on-n2-n3", []string{"n2", "n3"}
	case 2:
		cd.Variant, cd.AuthNodes = "store-on-all", []string{"n1", "n2", "n3"}
	case 3:
		cd.Variant, cd.AuthNodes = "no-store", nil
	}
	return cd
}

func run(c *vf.Ctx) {
	c.Rule("case = live in-process 3-node cluster whose nodes run with / without a credential store (store on n1 only, on n2+n3 only, on all, on none); request = kind {execute, queued execute with wait, query at strong / linearizable / weak, unified read-write, unified read-only at strong / linearizable / weak, load (SQL text), load (SQLite file), backup (binary, SQL), remove, stepdown to a named node} x ?redirect {off,on} x credentials {none, admin, user with query only, user with load+backup only, wrong password} x contacted node {n1,n2,n3}, in seeded order, leadership being moved by the stepdown requests themselves so that every node is leader and follower in turn; plus lost-response probes (the follower's fresh inter-node connection is cut right after the request was written) bursts placed at seeded points between the requests of that sequence (about one per five requests, and after its last leadership-moving request): through every follower that has forwarded to the current leader before, pool size + 1 (3..8) requests {execute, unified read-write, strong read, weak read}, each with its own token, are sent at the same time while the leader's answers are delayed by 15 ms per read so that they are all in flight together; and a final phase of concurrent tokened writes to all nodes while leadership is moved. Every write inserts a unique token into an oplog table. non-trivial = request with a verdict; distinct by (phase, kind, expected outcome, at-leader, redirect, credentials, store on contacted node, store on leader, cut) Every twelfth burst follows a slow-leader probe (applies slowed by a hook, forwarded write with a 200 ms timeout abandoned by the follower while the leader executes it).")
	c.Assume("expected outcome: the contacted node's own endpoint check (its store, if any) -> 401; at the leader -> served; ?redirect on a follower -> 301 with the leader's API URL and nothing executed; otherwise forwarded: the caller's credentials evaluated against the leader's store -> 401 or served exactly once on the leader")
	c.Assume("monitors: recording credential stores on every node (which user/password/permission each node's HTTP and inter-node check was asked about), leader commit index and oplog token count read directly from the leader's Store before and after every request, response compared with the leader's own answer (reads, backups) or with the result the leader computes for the write on the observed state; final per-node dumps and token counts at quiescence")
	c.Assume("bursts: every request is judged on its own -- 200, its token on the leader exactly once, last_insert_id = the row that holds its token, the read echoes its token, raft_index inside the commit-index window of the burst, distinct, and ordered like the inserted rows -- and the burst as a whole: the leader built exactly one raft command per request that goes through the log, and was asked only about the caller's credentials")
	c.Assume("a leadership change during a request that cannot move leadership, 503 and transport errors are inconclusive for that request; its token is then only required to be applied at most once")
	if c.ReplayFile != "" {
		replay(c)
		return
	}
	n := c.N(4, 32)
	tmp := vf.TempDir("c20")
	defer os.RemoveAll(tmp)
	outs := make([]caseOut, n)
	sem := make(chan struct{}, 4)
	var wg sync.WaitGroup
	for i := 0; i < n; i++ {
		wg.Add(1)
		go func(i int) {
			defer wg.Done()
			sem <- struct{}{}
			defer func() { <-sem }()
			outs[i] = runChild(c, genCase(i), tmp)
			c.Logf("case %d (%s): evals=%d held=%d bad=%d final=%d leaders=%v %s %s", i, outs[i].Case.Variant, outs[i].Evals, outs[i].Held, len(outs[i].Bad), len(outs[i].Final), outs[i].LeaderSeen, outs[i].FinalNote, firstLine(outs[i].SetupErr))
		}(i)
	}
	wg.Wait()
	for _, o := range outs {
		judge(c, o)
	}
	c.Require(int64(n*600), 60)
}

func runChild(c *vf.Ctx, cd caseDef, tmp string) caseOut {
	dir := filepath.Join(tmp, fmt.Sprintf("case%d", cd.No))
	os.MkdirAll(dir, 0755)
	defer os.RemoveAll(dir)
	cf := filepath.Join(dir, "case.json")
	b, _ := json.Marshal(cd)
	os.WriteFile(cf, b, 0644)
	of := filepath.Join(dir, "out.json")
	logp := filepath.Join(tmp, fmt.Sprintf("case%d.log", cd.No))
	_, code, ok := vf.RunWorkerOnce(false, "c20", []string{cf, dir, of, fmt.Sprint(c.Seed), c.Tier}, nil, logp, 30*time.Minute)
	var o caseOut
	ob, err := os.ReadFile(of)
	if err != nil || json.Unmarshal(ob, &o) != nil || !ok || code != 0 {
		tail := ""
		if lb, e := os.ReadFile(logp); e == nil {
			if len(lb) > 1500 {
				lb = lb[len(lb)-1500:]
			}
			tail = string(lb)
		}
		o = caseOut{Case: cd, SetupErr: fmt.Sprintf("worker exit=%d finished=%v err=%v log tail: %s", code, ok, err, tail)}
	}
	if os.Getenv("VERIF_C20_KEEPLOG") == "" {
		os.Remove(logp)
	} else {
		os.Rename(logp, filepath.Join(os.Getenv("VERIF_C20_KEEPLOG"), filepath.Base(logp)))
	}
	return o
}

func judge(c *vf.Ctx, o caseOut) {
	if o.SetupErr != "" {
		c.Eval(1)
		c.Logf("case %d: %s", o.Case.No, o.SetupErr)
		c.Inconclusive("case setup / worker: " + firstLine(o.SetupErr))
	}
	c.Eval(o.Evals)
	c.Held(o.Held)
	for k, v := range o.Counters {
		c.Count(k, v)
	}
	c.Count("leaders-seen-per-case", int64(len(o.LeaderSeen)))
	for _, k := range o.Keys {
		c.Nontrivial(k)
	}
	for _, s := range o.Samples {
		c.Sample(map[string]any{"variant": o.Case.Variant, "request": s})
	}
	if o.FinalNote != "" {
		c.Inconclusive("final: " + o.FinalNote)
	}
	sort.Slice(o.Bad, func(i, j int) bool { return o.Bad[i].Idx < o.Bad[j].Idx })
	for _, b := range o.Bad {
		if len(b.Problems) == 0 {
			c.Inconclusive(strings.SplitN(b.Inconcl, ":", 2)[0])
			continue
		}
		p := b.Problems[0]
		var all []string
		for _, q := range b.Problems {
			all = append(all, q.Key+": "+q.Detail)
		}
		what := fmt.Sprintf("%s %s to %s (leader %s, redirect=%v, credentials %s, store on node=%v, store on leader=%v, expected %s): status %d; %s", b.Phase, b.Kind, b.Node, b.Leader, b.Redirect, b.Pres, b.NodeAuth, b.LeadAuth, b.Expect, b.Status, strings.Join(all, " | "))
		c.Violation(p.Key, what, map[string]any{"case": o.Case, "request": b})
	}
	for _, p := range o.Final {
		c.Violation(p.Key, fmt.Sprintf("case %d (%s): %s", o.Case.No, o.Case.Variant, p.Detail), map[string]any{"case": o.Case, "final": p})
	}
}

func firstLine(s string) string {
	if i := strings.IndexByte(s, '\n'); i >= 0 {
		s = s[:i]
	}
	if len(s) > 120 {
		s = s[:120]
	}
	return s
}

func replay(c *vf.Ctx) {
	b, err := os.ReadFile(c.ReplayFile)
	if err != nil {
		panic(err)
	}
	var f struct {
		Case struct {
			Case caseDef `json:"case"`
		} `json:"case"`
	}
	if err := json.Unmarshal(b, &f); err != nil {
		panic(err)
	}
	tmp := vf.TempDir("c20r")
	defer os.RemoveAll(tmp)
	o := runChild(c, f.Case.Case, tmp)
	judge(c, o)
}
