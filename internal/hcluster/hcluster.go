// Package hcluster is harness A: an in-process rqlite cluster whose nodes are
// wired exactly like system_test/helpers.go (Store + cluster.Service +
// cluster.Client + proxy + http.Service on a real tcp.Mux) but whose outbound
// dials go through a faultnet.Net, so partitions, delays and cuts can be
// injected without touching rqlite.
package hcluster

import (
	"bytes"
	"encoding/json"
	"fmt"
	"io"
	"net"
	"net/http"
	"os"
	"path/filepath"
	"strings"
	"sync"
	"sync/atomic"
	"time"

	"github.com/rqlite/rqlite/v10/cluster"
	"github.com/rqlite/rqlite/v10/command/proto"
	httpd "github.com/rqlite/rqlite/v10/http"
	"github.com/rqlite/rqlite/v10/proxy"
	"github.com/rqlite/rqlite/v10/store"
	"github.com/rqlite/rqlite/v10/tcp"
	"verif/internal/faultnet"
)

// Options configures a node.
type Options struct {
	ID                string
	Dir               string // data dir; created if empty (under base)
	HTTPCreds         httpd.CredentialStore
	ClusterCreds      cluster.CredentialStore
	SnapshotThreshold uint64
	SnapshotInterval  time.Duration
	HeartbeatTimeout  time.Duration
	ElectionTimeout   time.Duration
	LeaderLease       time.Duration
	NoSnapshotOnClose bool
	ReapThreshold     int
	QueueBatchSz      int
	QueueTimeout      time.Duration
	QueueCap          int
	Tune              func(s *store.Store) // last-minute Store tuning before Open
	TuneHTTP          func(s *httpd.Service)
	RaftAddr          string // listen address ("" = 127.0.0.1:0)
}

// Node is one in-process rqlite node.
type Node struct {
	Name     string // faultnet name == ID
	ID       string
	Dir      string
	Opts     Options
	Store    *store.Store
	Service  *httpd.Service
	Cluster  *cluster.Service
	Client   *cluster.Client
	Proxy    *proxy.Proxy
	Mux      *tcp.Mux
	ln       net.Listener
	RaftAddr string
	APIAddr  string
	net      *faultnet.Net
	closed   atomic.Bool
}

type allowAll struct{}

func (allowAll) AA(username, password, perm string) bool { return true }

// NewNode creates and opens a node (not bootstrapped, not joined).
func NewNode(fn *faultnet.Net, o Options) (*Node, error) {
	if o.Dir == "" {
		return nil, fmt.Errorf("Dir required")
	}
	if err := os.MkdirAll(o.Dir, 0755); err != nil {
		return nil, err
	}
	addr := o.RaftAddr
	if addr == "" {
		addr = "127.0.0.1:0"
	}
	ln, err := net.Listen("tcp", addr)
	if err != nil {
		return nil, err
	}
	mux, err := tcp.NewMux(ln, nil)
	if err != nil {
		ln.Close()
		return nil, err
	}
	go mux.Serve()
	n := &Node{Name: o.ID, ID: o.ID, Dir: o.Dir, Opts: o, Mux: mux, ln: ln, net: fn}
	n.RaftAddr = ln.Addr().String()
	fn.Register(n.Name, n.RaftAddr)

	raftDialer := fn.WrapDialer(n.Name, "raft", tcp.NewDialer(cluster.MuxRaftHeader, nil))
	clstrDialer := fn.WrapDialer(n.Name, "cluster", tcp.NewDialer(cluster.MuxClusterHeader, nil))

	raftLn := mux.Listen(cluster.MuxRaftHeader)
	ly := &faultnet.Layer{Listener: raftLn, D: raftDialer}
	st := store.New(&store.Config{DBConf: store.NewDBConfig(), Dir: o.Dir, ID: o.ID}, ly)
	st.SnapshotThreshold = 8192
	if o.SnapshotThreshold != 0 {
		st.SnapshotThreshold = o.SnapshotThreshold
	}
	st.SnapshotInterval = time.Second
	if o.SnapshotInterval != 0 {
		st.SnapshotInterval = o.SnapshotInterval
	}
	st.HeartbeatTimeout = o.HeartbeatTimeout
	st.ElectionTimeout = o.ElectionTimeout
	st.LeaderLeaseTimeout = o.LeaderLease
	st.NoSnapshotOnClose = o.NoSnapshotOnClose
	st.SnapshotReapThreshold = o.ReapThreshold
	st.RaftLogLevel = "ERROR"
	if o.Tune != nil {
		o.Tune(st)
	}
	n.Store = st

	var cc cluster.CredentialStore = allowAll{}
	if o.ClusterCreds != nil {
		cc = o.ClusterCreds
	}
	cs := cluster.New(mux.Listen(cluster.MuxClusterHeader), st, st, cc)
	if err := cs.Open(); err != nil {
		return nil, err
	}
	n.Cluster = cs
	n.Client = cluster.NewClient(clstrDialer, 30*time.Second)
	n.Proxy = proxy.New(st, n.Client)
	n.Service = httpd.New("127.0.0.1:0", st, n.Client, n.Proxy, o.HTTPCreds)
	n.Service.DefaultQueueBatchSz = 8
	n.Service.DefaultQueueCap = 64
	if o.QueueBatchSz != 0 {
		n.Service.DefaultQueueBatchSz = o.QueueBatchSz
	}
	if o.QueueCap != 0 {
		n.Service.DefaultQueueCap = o.QueueCap
	}
	if o.QueueTimeout != 0 {
		n.Service.DefaultQueueTimeout = o.QueueTimeout
	}
	if o.TuneHTTP != nil {
		o.TuneHTTP(n.Service)
	}
	if err := n.Service.Start(); err != nil {
		return nil, err
	}
	n.APIAddr = n.Service.Addr().String()
	cs.SetAPIAddr(n.APIAddr)
	n.Proxy.SetAPIAddr(n.APIAddr)
	if err := st.Open(); err != nil {
		n.Service.Close()
		cs.Close()
		mux.Close()
		ln.Close()
		fn.Unregister(n.RaftAddr)
		return nil, fmt.Errorf("store open: %w", err)
	}
	return n, nil
}

// Bootstrap makes this node a single-node cluster.
func (n *Node) Bootstrap() error {
	return n.Store.Bootstrap(store.NewServer(n.Store.ID(), n.Store.Addr(), true))
}

// Close stops the node (graceful store close).
func (n *Node) Close() error {
	if n.closed.Swap(true) {
		return nil
	}
	n.net.KillConns(n.Name)
	n.Service.Close()
	err := n.Store.Close(true)
	n.Cluster.Close()
	n.Mux.Close()
	n.ln.Close() // tcp.Mux.Close only closes handed-off connections, not the listener
	n.net.Unregister(n.RaftAddr)
	return err
}

// URL builds an API URL.
func (n *Node) URL(path string) string { return "http://" + n.APIAddr + path }

// Cluster is a set of nodes on one faultnet.
type Cluster struct {
	Net   *faultnet.Net
	Base  string
	mu    sync.Mutex
	Nodes []*Node
	HTTP  *http.Client
}

// New creates an empty cluster with scratch base directory base.
func New(base string) *Cluster {
	return &Cluster{Net: faultnet.New(), Base: base, HTTP: &http.Client{
		Timeout: 30 * time.Second,
		CheckRedirect: func(req *http.Request, via []*http.Request) error {
			return http.ErrUseLastResponse
		},
		Transport: &http.Transport{MaxIdleConnsPerHost: 64},
	}}
}

// Add creates, opens and (if first) bootstraps or (otherwise) joins a node.
func (c *Cluster) Add(o Options, voter bool) (*Node, error) {
	if o.Dir == "" {
		o.Dir = filepath.Join(c.Base, o.ID)
	}
	n, err := NewNode(c.Net, o)
	if err != nil {
		return nil, err
	}
	c.mu.Lock()
	first := len(c.Nodes) == 0
	c.Nodes = append(c.Nodes, n)
	c.mu.Unlock()
	if first {
		if err := n.Bootstrap(); err != nil {
			return n, err
		}
		if _, err := n.Store.WaitForLeader(15 * time.Second); err != nil {
			return n, err
		}
		return n, nil
	}
	if err := c.Join(n, voter); err != nil {
		return n, err
	}
	return n, nil
}

// Join asks the current leader to add n.
func (c *Cluster) Join(n *Node, voter bool) error {
	var last error
	for i := 0; i < 40; i++ {
		l := c.Leader()
		if l == nil {
			time.Sleep(250 * time.Millisecond)
			continue
		}
		err := l.Store.Join(&proto.JoinRequest{Id: n.ID, Address: n.RaftAddr, Voter: voter})
		if err == nil {
			_, err = n.Store.WaitForLeader(15 * time.Second)
			return err
		}
		last = err
		time.Sleep(250 * time.Millisecond)
	}
	return fmt.Errorf("join %s: %v", n.ID, last)
}

// Leader returns the node that currently believes it is leader and is open
// (nil if none). With partitions there can be two; the first is returned.
func (c *Cluster) Leader() *Node {
	c.mu.Lock()
	defer c.mu.Unlock()
	for _, n := range c.Nodes {
		if !n.closed.Load() && n.Store.IsLeader() {
			return n
		}
	}
	return nil
}

// WaitLeader waits until some node is leader and all open nodes agree on it.
func (c *Cluster) WaitLeader(d time.Duration) *Node {
	deadline := time.Now().Add(d)
	for time.Now().Before(deadline) {
		if l := c.Leader(); l != nil {
			ok := true
			c.mu.Lock()
			for _, n := range c.Nodes {
				if n.closed.Load() {
					continue
				}
				a, _ := n.Store.LeaderAddr()
				if a != l.RaftAddr {
					ok = false
				}
			}
			c.mu.Unlock()
			if ok {
				return l
			}
		}
		time.Sleep(50 * time.Millisecond)
	}
	return nil
}

// Names returns the node names.
func (c *Cluster) Names() []string {
	c.mu.Lock()
	defer c.mu.Unlock()
	var out []string
	for _, n := range c.Nodes {
		out = append(out, n.Name)
	}
	return out
}

// Live returns the open nodes.
func (c *Cluster) Live() []*Node {
	c.mu.Lock()
	defer c.mu.Unlock()
	var out []*Node
	for _, n := range c.Nodes {
		if !n.closed.Load() {
			out = append(out, n)
		}
	}
	return out
}

// Close closes all nodes.
func (c *Cluster) Close() {
	c.Net.HealAll()
	for _, n := range c.Live() {
		n.Close()
	}
}

// Restart emulates a crash/restart of node n: isolate, stop services, close
// the store without a snapshot-on-close, and reopen a new node on the same
// directory, ID and raft address.
func (c *Cluster) Restart(n *Node) (*Node, error) {
	o := n.Opts
	o.Dir = n.Dir
	o.RaftAddr = n.RaftAddr
	n.Store.NoSnapshotOnClose = true
	if err := n.Close(); err != nil {
		return nil, fmt.Errorf("close for restart: %w", err)
	}
	var nn *Node
	var err error
	for i := 0; i < 50; i++ {
		nn, err = NewNode(c.Net, o)
		if err == nil {
			break
		}
		time.Sleep(100 * time.Millisecond)
	}
	if err != nil {
		return nil, err
	}
	c.mu.Lock()
	for i := range c.Nodes {
		if c.Nodes[i] == n {
			c.Nodes[i] = nn
		}
	}
	c.mu.Unlock()
	return nn, nil
}

// WaitConverged waits until every live node's applied index has reached the
// leader's commit index.
func (c *Cluster) WaitConverged(d time.Duration) bool {
	deadline := time.Now().Add(d)
	for time.Now().Before(deadline) {
		l := c.Leader()
		if l != nil {
			ci, err := l.Store.CommitIndex()
			ok := err == nil
			for _, n := range c.Live() {
				if n.Store.AppliedIndex() < ci {
					ok = false
				}
			}
			if ok {
				return true
			}
		}
		time.Sleep(50 * time.Millisecond)
	}
	return false
}

// ---- HTTP client helpers (real client boundary) ----

// Resp is a decoded API response.
type Resp struct {
	Status int
	Header http.Header
	Body   []byte
	Err    error // transport-level error (unknown outcome)
}

// Do performs an HTTP request against node n.
func (c *Cluster) Do(n *Node, method, path string, body []byte, hdr map[string]string) Resp {
	req, err := http.NewRequest(method, n.URL(path), bytes.NewReader(body))
	if err != nil {
		return Resp{Err: err}
	}
	if body != nil {
		req.Header.Set("Content-Type", "application/json")
	}
	for k, v := range hdr {
		if k == "@basic" {
			u, p, _ := strings.Cut(v, ":")
			req.SetBasicAuth(u, p)
			continue
		}
		req.Header.Set(k, v)
	}
	resp, err := c.HTTP.Do(req)
	if err != nil {
		return Resp{Err: err}
	}
	defer resp.Body.Close()
	b, err := io.ReadAll(resp.Body)
	return Resp{Status: resp.StatusCode, Header: resp.Header, Body: b, Err: err}
}

// PostJSON posts v as JSON.
func (c *Cluster) PostJSON(n *Node, path string, v any) Resp {
	b, _ := json.Marshal(v)
	return c.Do(n, "POST", path, b, nil)
}

// Result is one entry of a rqlite "results" array.
type Result struct {
	LastInsertID int64           `json:"last_insert_id"`
	RowsAffected int64           `json:"rows_affected"`
	Columns      []string        `json:"columns"`
	Types        []string        `json:"types"`
	Values       [][]any         `json:"values"`
	Rows         json.RawMessage `json:"rows"`
	Error        string          `json:"error"`
}

// APIResponse is the top-level response body.
type APIResponse struct {
	Results        []Result `json:"results"`
	Error          string   `json:"error"`
	SequenceNumber int64    `json:"sequence_number"`
	RaftIndex      uint64   `json:"raft_index"`
}

// Parse decodes the body (numbers as json.Number).
func (r Resp) Parse() (*APIResponse, error) {
	if r.Err != nil {
		return nil, r.Err
	}
	var a APIResponse
	dec := json.NewDecoder(bytes.NewReader(r.Body))
	dec.UseNumber()
	if err := dec.Decode(&a); err != nil {
		return nil, fmt.Errorf("status %d body %q: %w", r.Status, trunc(r.Body), err)
	}
	return &a, nil
}

func trunc(b []byte) string {
	if len(b) > 200 {
		return string(b[:200]) + "…"
	}
	return string(b)
}
