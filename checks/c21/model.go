package c21

import (
	"bytes"
	"compress/gzip"
	"crypto/sha256"
	"database/sql"
	"encoding/binary"
	"fmt"
	"io"
	"os"
	"path/filepath"
	"sort"
	"strings"

	"verif/internal/sqlref"
)

// ---- workload model ----
//
// Writers w = 1..W run transactions tx(w,i), i = 1,2,3,… strictly increasing:
//
//	INSERT INTO a(w,i,pad) VALUES(w,i,pad(w,i))
//	INSERT INTO b(w,i,pad) VALUES(w,i,pad(w,i))
//	UPDATE meta SET last=i WHERE w=w
//	UPDATE bal SET v=v-1 WHERE id=x(w,i)
//	UPDATE bal SET v=v+1 WHERE id=y(w,i)
//
// pad, x, y are pure functions of (seed,w,i), so the committed state after any
// set of transactions is a pure function of the vector (last_1..last_W): the
// restored backup can be compared with the model state exactly.

const (
	nBal    = 8
	balInit = 1000
)

type model struct {
	Seed    int64
	Writers int
}

func (m model) h(w, i int) []byte {
	s := sha256.Sum256([]byte(fmt.Sprintf("c21|%d|%d|%d", m.Seed, w, i)))
	return s[:]
}

func (m model) pad(w, i int) string {
	h := m.h(w, i)
	n := 8 + int(binary.LittleEndian.Uint16(h[0:2]))%120
	const hexd = "0123456789abcdef"
	var sb strings.Builder
	for k := 0; k < n; k++ {
		sb.WriteByte(hexd[h[2+k%30]>>uint(4*(k/30%2))&15])
	}
	return sb.String()
}

// move returns the balance rows (1-based ids) the transaction moves a unit between.
func (m model) move(w, i int) (from, to int) {
	h := m.h(w, i)
	from = int(h[20]) % nBal
	to = (from + 1 + int(h[21])%(nBal-1)) % nBal
	return from + 1, to + 1
}

// stmts returns the statements of tx(w,i) in the rqlite HTTP JSON form.
func (m model) stmts(w, i int) []any {
	x, y := m.move(w, i)
	p := m.pad(w, i)
	return []any{
		[]any{"INSERT INTO a(w,i,pad) VALUES(?,?,?)", w, i, p},
		[]any{"INSERT INTO b(w,i,pad) VALUES(?,?,?)", w, i, p},
		[]any{"UPDATE meta SET last=? WHERE w=?", i, w},
		[]any{"UPDATE bal SET v=v-1 WHERE id=?", x},
		[]any{"UPDATE bal SET v=v+1 WHERE id=?", y},
	}
}

func (m model) schema() []any {
	out := []any{
		"CREATE TABLE a (w INTEGER NOT NULL, i INTEGER NOT NULL, pad TEXT, PRIMARY KEY(w,i))",
		"CREATE TABLE b (w INTEGER NOT NULL, i INTEGER NOT NULL, pad TEXT, PRIMARY KEY(w,i))",
		"CREATE TABLE meta (w INTEGER PRIMARY KEY, last INTEGER NOT NULL)",
		"CREATE TABLE bal (id INTEGER PRIMARY KEY, v INTEGER NOT NULL)",
		"CREATE INDEX b_pad ON b(pad)",
	}
	for w := 1; w <= m.Writers; w++ {
		out = append(out, fmt.Sprintf("INSERT INTO meta(w,last) VALUES(%d,0)", w))
	}
	for id := 1; id <= nBal; id++ {
		out = append(out, fmt.Sprintf("INSERT INTO bal(id,v) VALUES(%d,%d)", id, balInit))
	}
	return out
}

// balances returns the model balances for the vector last[w-1].
func (m model) balances(last []int64) [nBal]int64 {
	var b [nBal]int64
	for k := range b {
		b[k] = balInit
	}
	for w := 1; w <= len(last); w++ {
		for i := 1; i <= int(last[w-1]); i++ {
			x, y := m.move(w, i)
			b[x-1]--
			b[y-1]++
		}
	}
	return b
}

// ---- restoring a backup into a scratch SQLite and examining it ----

// exam is what the monitor saw in a restored backup.
type exam struct {
	DecodeErr string   `json:"decode_err,omitempty"` // stage: message; the body is not a restorable backup
	ErrTail   string   `json:"err_tail,omitempty"`   // error text found at the end of the body
	IndexSkip string   `json:"index_skip,omitempty"` // SQL dump restorable only after dropping index statements on unselected tables
	Integrity string   `json:"integrity,omitempty"`
	Journal   string   `json:"journal_mode,omitempty"`
	Tables    []string `json:"tables,omitempty"`
	Indexes   []string `json:"indexes,omitempty"`
	Vector    []int64  `json:"vector,omitempty"` // last_w as stored in the backup (-1 unknown)
	Rows      int      `json:"rows"`
	Bad       []string `json:"bad,omitempty"` // "<kind>: text"; kinds gap, sum, skew, schema
}

func (e *exam) bad(kind, format string, a ...any) {
	if len(e.Bad) < 12 {
		e.Bad = append(e.Bad, kind+": "+fmt.Sprintf(format, a...))
	}
}

var sqliteMagic = []byte("SQLite format 3\x00")

// knownErrTails are the error strings the HTTP layer has been seen to append
// to a body that had already been started.
func errTail(body []byte) string {
	t := body
	if len(t) > 400 {
		t = t[len(t)-400:]
	}
	for _, pat := range []string{"faultnet: connection cut", "faultnet: link blocked", "unexpected EOF", "i/o timeout", "use of closed network connection", "connection reset by peer", "gzip: invalid", "c21: peer closed", "broken pipe", "EOF\n"} {
		if k := bytes.LastIndex(t, []byte(pat)); k >= 0 {
			s := t[k:]
			// widen to the start of the line when it is printable
			j := k
			for j > 0 && t[j-1] >= 0x20 && t[j-1] < 0x7f && k-j < 160 {
				j--
			}
			s = t[j:]
			return strings.TrimSpace(string(s))
		}
	}
	return ""
}

func gunzipAll(b []byte) ([]byte, error) {
	zr, err := gzip.NewReader(bytes.NewReader(b))
	if err != nil {
		return nil, err
	}
	// multistream (default): anything after the first member must be another
	// valid member, so trailing garbage is an error, as it would be for gunzip -t.
	out, err := io.ReadAll(zr)
	if err != nil {
		return out, err
	}
	return out, zr.Close()
}

// restore decodes body (as returned for case bc) into dir and examines it.
func restore(m model, bc bcase, body []byte, dir string) (e exam) {
	os.MkdirAll(dir, 0755)
	e.ErrTail = errTail(body)
	raw := body
	if bc.Compress {
		var err error
		raw, err = gunzipAll(body)
		if err != nil {
			e.DecodeErr = "gunzip: " + err.Error()
			return
		}
	}
	path := filepath.Join(dir, "restored.db")
	var db *sql.DB
	var err error
	if bc.Fmt == "sql" {
		db, err = sqlref.Open(path)
		if err != nil {
			e.DecodeErr = "open scratch: " + err.Error()
			return
		}
		defer db.Close()
		text := string(raw)
		if !strings.HasSuffix(text, "COMMIT;\n") {
			e.DecodeErr = "sql: dump does not end with COMMIT"
			return
		}
		if _, err = db.Exec(text); err != nil {
			// A table-filtered dump still lists every index of the database.
			// Note it, then retry without the index statements of unselected
			// tables so that the rest of the oracle still runs.
			first := err.Error()
			db.Close()
			os.Remove(path)
			db, err = sqlref.Open(path)
			if err != nil {
				e.DecodeErr = "open scratch: " + err.Error()
				return
			}
			defer db.Close()
			sel := map[string]bool{}
			for _, t := range strings.Split(bc.Tables, ",") {
				sel[strings.TrimSpace(t)] = true
			}
			var kept []string
			dropped := 0
			for _, ln := range strings.SplitAfter(text, "\n") {
				if bc.Tables != "" && strings.HasPrefix(ln, "CREATE INDEX b_pad ON b(") && !sel["b"] {
					dropped++
					continue
				}
				kept = append(kept, ln)
			}
			if dropped == 0 {
				e.DecodeErr = "sql exec: " + first
				return
			}
			if _, err = db.Exec(strings.Join(kept, "")); err != nil {
				e.DecodeErr = "sql exec: " + err.Error()
				return
			}
			e.IndexSkip = first
		}
	} else {
		if len(raw) < 100 || !bytes.Equal(raw[:16], sqliteMagic) {
			e.DecodeErr = fmt.Sprintf("sqlite: not a database file (%d bytes)", len(raw))
			return
		}
		if err = os.WriteFile(path, raw, 0644); err != nil {
			e.DecodeErr = "write scratch: " + err.Error()
			return
		}
		// header: page size and page count must match the file length
		ps := int64(binary.BigEndian.Uint16(raw[16:18]))
		if ps == 1 {
			ps = 65536
		}
		pc := int64(binary.BigEndian.Uint32(raw[28:32]))
		if ps > 0 && pc > 0 && ps*pc != int64(len(raw)) {
			e.DecodeErr = fmt.Sprintf("sqlite: file is %d bytes but header says %d pages of %d", len(raw), pc, ps)
			return
		}
		db, err = sqlref.Open(path)
		if err != nil {
			e.DecodeErr = "sqlite open: " + err.Error()
			return
		}
		defer db.Close()
	}
	examine(m, bc, db, &e)
	return
}

func examine(m model, bc bcase, db *sql.DB, e *exam) {
	fail := func(stage string, err error) { e.DecodeErr = stage + ": " + err.Error() }
	var ic []string
	rows, err := db.Query("PRAGMA integrity_check")
	if err != nil {
		fail("integrity_check", err)
		return
	}
	for rows.Next() {
		var s string
		rows.Scan(&s)
		ic = append(ic, s)
	}
	rows.Close()
	if err := rows.Err(); err != nil {
		fail("integrity_check", err)
		return
	}
	e.Integrity = strings.Join(ic, "; ")
	if len(e.Integrity) > 300 {
		e.Integrity = e.Integrity[:300]
	}
	if e.Integrity != "ok" {
		return
	}
	db.QueryRow("PRAGMA journal_mode").Scan(&e.Journal)
	rows, err = db.Query("SELECT type, name FROM sqlite_master WHERE name NOT LIKE 'sqlite_%' ORDER BY name")
	if err != nil {
		fail("schema", err)
		return
	}
	for rows.Next() {
		var t, n string
		rows.Scan(&t, &n)
		if t == "table" {
			e.Tables = append(e.Tables, n)
		} else {
			e.Indexes = append(e.Indexes, n)
		}
	}
	rows.Close()
	has := map[string]bool{}
	for _, t := range e.Tables {
		has[t] = true
	}
	// which tables must be there
	want := []string{"a", "b", "bal", "meta"}
	if bc.Fmt == "sql" && bc.Tables != "" {
		want = nil
		for _, t := range strings.Split(bc.Tables, ",") {
			want = append(want, strings.TrimSpace(t))
		}
		sort.Strings(want)
	}
	if strings.Join(want, ",") != strings.Join(e.Tables, ",") {
		e.bad("schema", "tables %v, expected %v", e.Tables, want)
	}
	if (bc.Fmt != "sql" || bc.Tables == "") && strings.Join(e.Indexes, ",") != "b_pad" {
		e.bad("schema", "indexes %v, expected [b_pad]", e.Indexes)
	}

	W := m.Writers
	cnt := map[string][]int64{}
	for _, t := range []string{"a", "b"} {
		if !has[t] {
			continue
		}
		c := make([]int64, W)
		rows, err := db.Query("SELECT w, i, pad FROM " + t + " ORDER BY w, i")
		if err != nil {
			fail("read "+t, err)
			return
		}
		for rows.Next() {
			var w, i int64
			var pad sql.NullString
			if err := rows.Scan(&w, &i, &pad); err != nil {
				rows.Close()
				fail("scan "+t, err)
				return
			}
			e.Rows++
			if w < 1 || int(w) > W {
				e.bad("gap", "table %s has a row of unknown writer %d", t, w)
				continue
			}
			c[w-1]++
			if i != c[w-1] {
				e.bad("gap", "table %s writer %d: row i=%d at position %d (rows are not 1..n)", t, w, i, c[w-1])
				c[w-1] = i
			}
			if pad.String != m.pad(int(w), int(i)) {
				e.bad("gap", "table %s row (%d,%d) has pad %q, committed value is %q", t, w, i, pad.String, m.pad(int(w), int(i)))
			}
		}
		rows.Close()
		if err := rows.Err(); err != nil {
			fail("read "+t, err)
			return
		}
		cnt[t] = c
	}
	var last []int64
	if has["meta"] {
		last = make([]int64, W)
		for k := range last {
			last[k] = -1
		}
		rows, err := db.Query("SELECT w, last FROM meta ORDER BY w")
		if err != nil {
			fail("read meta", err)
			return
		}
		n := 0
		for rows.Next() {
			var w, l int64
			rows.Scan(&w, &l)
			n++
			if w >= 1 && int(w) <= W {
				last[w-1] = l
			}
		}
		rows.Close()
		if n != W {
			e.bad("gap", "meta has %d rows, expected %d", n, W)
		}
	}
	// the vector of the backup: meta if present, else the row counts
	vec := last
	if vec == nil {
		if c, ok := cnt["a"]; ok {
			vec = c
		} else if c, ok := cnt["b"]; ok {
			vec = c
		}
	}
	if vec != nil {
		e.Vector = append([]int64(nil), vec...)
		for _, t := range []string{"a", "b"} {
			c, ok := cnt[t]
			if !ok {
				continue
			}
			for w := 0; w < W; w++ {
				if c[w] != vec[w] {
					src := "meta.last"
					if last == nil {
						src = "rows(a)"
					}
					e.bad("skew", "writer %d: %s has rows 1..%d but %s = %d", w+1, t, c[w], src, vec[w])
				}
			}
		}
	}
	if has["bal"] {
		var got [nBal]int64
		var sum int64
		n := 0
		rows, err := db.Query("SELECT id, v FROM bal ORDER BY id")
		if err != nil {
			fail("read bal", err)
			return
		}
		for rows.Next() {
			var id, v int64
			rows.Scan(&id, &v)
			n++
			sum += v
			if id >= 1 && id <= nBal {
				got[id-1] = v
			}
		}
		rows.Close()
		if n != nBal {
			e.bad("gap", "bal has %d rows, expected %d", n, nBal)
		}
		if sum != nBal*balInit {
			e.bad("sum", "balances sum to %d, the constant is %d", sum, nBal*balInit)
		}
		if vec != nil {
			ok := true
			for _, v := range vec {
				if v < 0 {
					ok = false
				}
			}
			if ok {
				if exp := m.balances(vec); exp != got {
					e.bad("skew", "balances %v are not those of the state with last=%v (%v)", got, vec, exp)
				}
			}
		}
	}
}
