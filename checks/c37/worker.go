package c37

import (
	"bytes"
	"compress/gzip"
	"context"
	"encoding/binary"
	"encoding/json"
	"errors"
	"fmt"
	"io"
	"math/rand/v2"
	"net/url"
	"os"
	"path/filepath"
	"sort"
	"strconv"
	"sync"
	"sync/atomic"
	"time"

	"github.com/rqlite/rqlite/v10/auto/backup"
	"github.com/rqlite/rqlite/v10/store"
	"verif/internal/hcluster"
	"verif/internal/sqlref"
)

// ---- records ----

type step struct {
	Op    string   `json:"op"` // burst | wait | quiet | read | restart | join | off | offwait | on | storage-fail | storage-heal
	N     int      `json:"n,omitempty"`
	Kinds []string `json:"kinds,omitempty"` // burst: kind of each write
}

type spec struct {
	Run      int    `json:"run"`
	Seed     int64  `json:"seed"`
	Dir      string `json:"dir"`
	Vacuum   bool   `json:"vacuum"`
	Compress bool   `json:"compress"`
	Steps    []step `json:"steps"`
	FailPct  int    `json:"fail_pct"` // injected storage / provider failure rate
}

// ev is one entry of the event log; Seq is its position.
type ev struct {
	Seq int `json:"seq"`
	// round | provide-begin | provide-end | currentid | upload | write-start | write-ack | write-fail | read | restart | drain | end |
	// gate-off | gate-on (the script flips the upload-enabled predicate) | tick-off (the uploader asked the predicate and was told
	// "not enabled") | li-off (LastIndex called although the preceding tick was told "not enabled": not a round) |
	// storage-fail | storage-heal (every Upload fails in between)
	Kind string `json:"k"`
	Inst int    `json:"inst,omitempty"`
	Li   uint64 `json:"li,omitempty"`
	ID   string `json:"id,omitempty"`
	N    int    `json:"n,omitempty"`
	Err  string `json:"err,omitempty"`
	Inj  bool   `json:"injected,omitempty"`
	Tag  string `json:"tag,omitempty"`
	WK   string `json:"wkind,omitempty"`
	Idx  uint64 `json:"idx,omitempty"`
}

type upRes struct {
	Seq        int      `json:"seq"`
	ID         string   `json:"id"`
	Bytes      int      `json:"bytes"`
	RestoreErr string   `json:"restore_err,omitempty"`
	Rows       int      `json:"rows"`
	Missing    []string `json:"missing,omitempty"` // acknowledged tags with index <= label absent from the file
	MissingN   int      `json:"missing_n,omitempty"`
}

type runRes struct {
	Run      int     `json:"run"`
	Vacuum   bool    `json:"vacuum"`
	Compress bool    `json:"compress"`
	Steps    []step  `json:"steps"`
	Events   []ev    `json:"events"`
	Uploads  []upRes `json:"uploads"`
	SetupErr string  `json:"setup_err,omitempty"`
	Done     bool    `json:"done"`
}

// ---- event log ----

type evlog struct {
	mu  sync.Mutex
	evs []ev
}

func (l *evlog) add(e ev) int {
	l.mu.Lock()
	defer l.mu.Unlock()
	e.Seq = len(l.evs)
	l.evs = append(l.evs, e)
	return e.Seq
}

func (l *evlog) setLi(seq int, li uint64, err error) {
	l.mu.Lock()
	l.evs[seq].Li = li
	if err != nil {
		l.evs[seq].Err = err.Error()
	}
	l.mu.Unlock()
}

func (l *evlog) rounds() int { return l.count("round") }

func (l *evlog) count(kind string) int {
	l.mu.Lock()
	defer l.mu.Unlock()
	n := 0
	for _, e := range l.evs {
		if e.Kind == kind {
			n++
		}
	}
	return n
}

// ---- harness storage client ----

type stored struct {
	seq  int
	id   string
	data []byte
}

type storage struct {
	log   *evlog
	mu    sync.Mutex
	rng   *rand.Rand
	pct   int
	drain atomic.Bool
	// failUploads: every Upload fails (a storage outage the script opens and closes)
	failUploads atomic.Bool
	nForced     atomic.Int64
	inst        *atomic.Int64
	cur         string
	objs        []stored
}

func (s *storage) String() string { return "c37-harness-storage" }

func (s *storage) roll() int {
	s.mu.Lock()
	defer s.mu.Unlock()
	if s.drain.Load() {
		return 100
	}
	return s.rng.IntN(100)
}

func (s *storage) Upload(ctx context.Context, r io.Reader, id string) error {
	p := s.roll()
	inst := int(s.inst.Load())
	if s.failUploads.Load() && !s.drain.Load() {
		// scripted outage: alternately refused and broken midway
		if s.nForced.Add(1)%2 == 0 {
			s.log.add(ev{Kind: "upload", Inst: inst, ID: id, Err: "injected: refused (outage)", Inj: true})
			return errors.New("c37: injected upload failure (outage, refused)")
		}
		n, _ := io.CopyN(io.Discard, r, 2048)
		s.log.add(ev{Kind: "upload", Inst: inst, ID: id, N: int(n), Err: "injected: broken midway (outage)", Inj: true})
		return errors.New("c37: injected upload failure (outage, midway)")
	}
	if p < s.pct/2 {
		s.log.add(ev{Kind: "upload", Inst: inst, ID: id, Err: "injected: refused", Inj: true})
		return errors.New("c37: injected upload failure (refused)")
	}
	if p < s.pct {
		// fail after consuming part of the data
		n, _ := io.CopyN(io.Discard, r, 2048)
		s.log.add(ev{Kind: "upload", Inst: inst, ID: id, N: int(n), Err: "injected: broken midway", Inj: true})
		return errors.New("c37: injected upload failure (midway)")
	}
	b, err := io.ReadAll(r)
	if err != nil {
		s.log.add(ev{Kind: "upload", Inst: inst, ID: id, N: len(b), Err: "read: " + err.Error()})
		return err
	}
	s.mu.Lock()
	seq := s.log.add(ev{Kind: "upload", Inst: inst, ID: id, N: len(b)})
	s.cur = id
	s.objs = append(s.objs, stored{seq: seq, id: id, data: b})
	s.mu.Unlock()
	return nil
}

func (s *storage) CurrentID(ctx context.Context) (string, error) {
	p := s.roll()
	inst := int(s.inst.Load())
	if p < s.pct {
		s.log.add(ev{Kind: "currentid", Inst: inst, Err: "injected", Inj: true})
		return "", errors.New("c37: injected CurrentID failure")
	}
	s.mu.Lock()
	id := s.cur
	s.mu.Unlock()
	s.log.add(ev{Kind: "currentid", Inst: inst, ID: id})
	return id, nil
}

// ---- wrapping data provider: every LastIndex call is a round start ----

type provider struct {
	inner *store.Provider
	log   *evlog
	st    *storage
	inst  *atomic.Int64
	// lastTickOff: the uploader's most recent question "is upload enabled?" was
	// answered no. The uploader asks on every tick, in the goroutine that then
	// runs the round, so a LastIndex call while this is set does not start a
	// round (nothing may be expected of it); it is logged as li-off.
	lastTickOff *atomic.Bool
}

func (p *provider) LastIndex() (uint64, error) {
	// the round's place in the log is taken before the index is read, so that
	// every write acknowledged earlier in the log was applied before the read
	kind := "round"
	if p.lastTickOff.Load() {
		kind = "li-off"
	}
	seq := p.log.add(ev{Kind: kind, Inst: int(p.inst.Load())})
	li, err := p.inner.LastIndex()
	p.log.setLi(seq, li, err)
	return li, err
}

func (p *provider) Provide(w io.WriteSeeker) error {
	inst := int(p.inst.Load())
	if r := p.st.roll(); r < p.st.pct/2 {
		p.log.add(ev{Kind: "provide-end", Inst: inst, Err: "injected", Inj: true})
		return errors.New("c37: injected provider failure")
	}
	p.log.add(ev{Kind: "provide-begin", Inst: inst})
	err := p.inner.Provide(w)
	e := ev{Kind: "provide-end", Inst: inst}
	if err != nil {
		e.Err = err.Error()
	}
	p.log.add(e)
	return err
}

// ---- the worker ----

func worker(args []string) {
	var sp spec
	if err := json.Unmarshal([]byte(args[0]), &sp); err != nil {
		fmt.Fprintln(os.Stderr, "bad spec:", err)
		os.Exit(2)
	}
	res := runOne(sp)
	json.NewEncoder(os.Stdout).Encode(res)
}

const interval = 30 * time.Millisecond

func runOne(sp spec) (res runRes) {
	res = runRes{Run: sp.Run, Vacuum: sp.Vacuum, Compress: sp.Compress, Steps: sp.Steps}
	t0 := time.Now()
	logf := func(f string, a ...any) {
		fmt.Fprintf(os.Stderr, "[c37 run %d %6.2fs] %s\n", sp.Run, time.Since(t0).Seconds(), fmt.Sprintf(f, a...))
	}
	defer os.RemoveAll(sp.Dir)
	// the uploader's temp files go to $TMPDIR: keep them inside the scratch dir
	tmpd := filepath.Join(sp.Dir, "tmp")
	os.MkdirAll(tmpd, 0755)
	os.Setenv("TMPDIR", tmpd)

	cl := hcluster.New(sp.Dir)
	defer cl.Close()
	cl.HTTP.Timeout = 60 * time.Second
	n, err := cl.Add(hcluster.Options{ID: "n1", HeartbeatTimeout: time.Second, ElectionTimeout: time.Second,
		SnapshotThreshold: 24, SnapshotInterval: 100 * time.Millisecond}, true)
	if err != nil {
		res.SetupErr = "node: " + err.Error()
		return
	}
	if cl.WaitLeader(60*time.Second) == nil {
		res.SetupErr = "no leader"
		return
	}
	lg := &evlog{}
	// creating the table is the first change (write "schema")
	lg.add(ev{Kind: "write-start", Tag: "schema", WK: "execute"})
	r0 := cl.PostJSON(n, "/db/execute?raft_index", []any{"CREATE TABLE t (id INTEGER PRIMARY KEY, tag TEXT UNIQUE, pad TEXT)"})
	if a, err := r0.Parse(); err != nil || r0.Status != 200 || a.RaftIndex == 0 || len(a.Results) != 1 || a.Results[0].Error != "" {
		res.SetupErr = fmt.Sprintf("schema: %v %d %.200s", err, r0.Status, r0.Body)
		return
	} else {
		lg.add(ev{Kind: "write-ack", Tag: "schema", WK: "execute", Idx: a.RaftIndex})
	}
	var inst atomic.Int64
	st := &storage{log: lg, rng: rand.New(rand.NewPCG(uint64(sp.Seed), uint64(sp.Run)*7919+13)), pct: sp.FailPct, inst: &inst}
	var gateOff, lastTickOff atomic.Bool
	pv := &provider{inner: store.NewProvider(n.Store, sp.Vacuum, sp.Compress), log: lg, st: st, inst: &inst, lastTickOff: &lastTickOff}
	// the upload-enabled predicate handed to Uploader.Start (rqlited passes
	// Store.IsLeader): switched by the script, every "no" is logged
	enabled := func() bool {
		if gateOff.Load() {
			lastTickOff.Store(true)
			lg.add(ev{Kind: "tick-off", Inst: int(inst.Load())})
			return false
		}
		lastTickOff.Store(false)
		return true
	}

	var cancel context.CancelFunc
	var done chan struct{}
	startUploader := func() {
		inst.Add(1)
		var ctx context.Context
		ctx, cancel = context.WithCancel(context.Background())
		up := backup.NewUploader(st, pv, interval)
		lastTickOff.Store(false)
		done = up.Start(ctx, enabled)
	}
	stopUploader := func() bool {
		cancel()
		select {
		case <-done:
			return true
		case <-time.After(60 * time.Second):
			return false
		}
	}
	startUploader()

	waitRounds := func(k int) bool {
		target := lg.rounds() + k
		dl := time.Now().Add(90 * time.Second)
		for lg.rounds() < target {
			if time.Now().After(dl) {
				return false
			}
			time.Sleep(5 * time.Millisecond)
		}
		return true
	}
	waitOffTicks := func(k int) bool {
		target := lg.count("tick-off") + k
		dl := time.Now().Add(90 * time.Second)
		for lg.count("tick-off") < target {
			if time.Now().After(dl) {
				return false
			}
			time.Sleep(5 * time.Millisecond)
		}
		return true
	}

	var wg sync.WaitGroup
	var tagN atomic.Int64
	rw := rand.New(rand.NewPCG(uint64(sp.Seed), uint64(sp.Run)*104729+1))
	var rwMu sync.Mutex
	writeOne := func(kind string) {
		tag := fmt.Sprintf("r%d-t%d", sp.Run, tagN.Add(1))
		pad := fmt.Sprintf("%0*d", 20+int(tagN.Load())%200, 7)
		lg.add(ev{Kind: "write-start", Tag: tag, WK: kind})
		var r hcluster.Resp
		switch kind {
		case "execute":
			r = cl.PostJSON(n, "/db/execute?raft_index", []any{[]any{"INSERT INTO t(tag,pad) VALUES(?,?)", tag, pad}})
		case "request":
			r = cl.PostJSON(n, "/db/request?raft_index", []any{[]any{"INSERT INTO t(tag,pad) VALUES(?,?)", tag, pad}})
		case "request-returning":
			r = cl.PostJSON(n, "/db/request?raft_index", []any{[]any{"INSERT INTO t(tag,pad) VALUES(?,?) RETURNING id", tag, pad}})
		}
		a, err := r.Parse()
		if err != nil || r.Status != 200 || a.Error != "" || len(a.Results) != 1 || a.Results[0].Error != "" || a.RaftIndex == 0 {
			msg := fmt.Sprintf("%v %d %.200s", err, r.Status, r.Body)
			lg.add(ev{Kind: "write-fail", Tag: tag, WK: kind, Err: msg})
			logf("write %s failed: %s", tag, msg)
			return
		}
		lg.add(ev{Kind: "write-ack", Tag: tag, WK: kind, Idx: a.RaftIndex})
	}

	ok := true
	for _, s := range sp.Steps {
		if !ok {
			break
		}
		switch s.Op {
		case "burst":
			kinds := s.Kinds
			wg.Add(1)
			go func() {
				defer wg.Done()
				for _, k := range kinds {
					writeOne(k)
					rwMu.Lock()
					d := time.Duration(rw.IntN(12)) * time.Millisecond
					rwMu.Unlock()
					time.Sleep(d)
				}
			}()
		case "wait":
			ok = waitRounds(s.N)
		case "quiet":
			wg.Wait()
			ok = waitRounds(s.N)
		case "read":
			r := cl.Do(n, "GET", "/db/query?level=strong&q="+url.QueryEscape("SELECT COUNT(*) FROM t"), nil, nil)
			lg.add(ev{Kind: "read", N: r.Status})
		case "off":
			// from now on the predicate answers "not enabled"
			gateOff.Store(true)
			lg.add(ev{Kind: "gate-off"})
		case "offwait":
			// let N ticks pass on which the uploader is told "not enabled"
			ok = waitOffTicks(s.N)
		case "join":
			// every write started so far has been answered
			wg.Wait()
		case "on":
			lg.add(ev{Kind: "gate-on"})
			gateOff.Store(false)
		case "storage-fail":
			st.failUploads.Store(true)
			lg.add(ev{Kind: "storage-fail"})
		case "storage-heal":
			st.failUploads.Store(false)
			lg.add(ev{Kind: "storage-heal"})
		case "restart":
			wg.Wait()
			if !stopUploader() {
				ok = false
				break
			}
			lg.add(ev{Kind: "restart"})
			startUploader()
		}
	}
	wg.Wait()
	if ok {
		st.drain.Store(true)
		st.failUploads.Store(false)
		if gateOff.Load() {
			lg.add(ev{Kind: "gate-on"})
			gateOff.Store(false)
		}
		lg.add(ev{Kind: "drain"})
		ok = waitRounds(5)
	}
	stopped := stopUploader()
	lg.add(ev{Kind: "end"})
	res.Events = lg.evs
	if !ok || !stopped {
		res.SetupErr = "uploader rounds did not advance within 90s (or the uploader did not stop)"
		return
	}

	// examine every stored object
	acked := map[string]uint64{}
	for _, e := range lg.evs {
		if e.Kind == "write-ack" && e.Tag != "schema" {
			acked[e.Tag] = e.Idx
		}
	}
	for k, o := range st.objs {
		u := upRes{Seq: o.seq, ID: o.id, Bytes: len(o.data)}
		label, perr := strconv.ParseUint(o.id, 10, 64)
		if perr != nil {
			u.RestoreErr = "label is not a decimal index: " + o.id
			res.Uploads = append(res.Uploads, u)
			continue
		}
		tags, err := restoreTags(o.data, sp.Compress, filepath.Join(sp.Dir, fmt.Sprintf("up%d", k)))
		if err != nil {
			u.RestoreErr = err.Error()
			res.Uploads = append(res.Uploads, u)
			continue
		}
		u.Rows = len(tags)
		for tag, idx := range acked {
			if idx <= label && !tags[tag] {
				u.MissingN++
				if len(u.Missing) < 5 {
					u.Missing = append(u.Missing, fmt.Sprintf("%s@%d", tag, idx))
				}
			}
		}
		sort.Strings(u.Missing)
		res.Uploads = append(res.Uploads, u)
	}
	res.Done = true
	return
}

var sqliteMagic = []byte("SQLite format 3\x00")

// restoreTags restores an uploaded object with the stock SQLite driver and
// returns the set of tags in table t.
func restoreTags(data []byte, compressed bool, dir string) (map[string]bool, error) {
	os.MkdirAll(dir, 0755)
	defer os.RemoveAll(dir)
	raw := data
	if compressed {
		zr, err := gzip.NewReader(bytes.NewReader(data))
		if err != nil {
			return nil, fmt.Errorf("gunzip: %v", err)
		}
		raw, err = io.ReadAll(zr)
		if err != nil {
			return nil, fmt.Errorf("gunzip: %v", err)
		}
	}
	if len(raw) < 100 || !bytes.Equal(raw[:16], sqliteMagic) {
		return nil, fmt.Errorf("not a SQLite file (%d bytes)", len(raw))
	}
	ps := int64(binary.BigEndian.Uint16(raw[16:18]))
	if ps == 1 {
		ps = 65536
	}
	pc := int64(binary.BigEndian.Uint32(raw[28:32]))
	if ps > 0 && pc > 0 && ps*pc != int64(len(raw)) {
		return nil, fmt.Errorf("file is %d bytes but its header says %d pages of %d bytes", len(raw), pc, ps)
	}
	p := filepath.Join(dir, "up.db")
	if err := os.WriteFile(p, raw, 0644); err != nil {
		return nil, err
	}
	db, err := sqlref.Open(p)
	if err != nil {
		return nil, err
	}
	defer db.Close()
	var ic string
	if err := db.QueryRow("PRAGMA integrity_check").Scan(&ic); err != nil {
		return nil, fmt.Errorf("integrity_check: %v", err)
	}
	if ic != "ok" {
		return nil, fmt.Errorf("integrity_check: %s", ic)
	}
	rows, err := db.Query("SELECT tag FROM t")
	if err != nil {
		return nil, fmt.Errorf("read t: %v", err)
	}
	defer rows.Close()
	out := map[string]bool{}
	for rows.Next() {
		var s string
		rows.Scan(&s)
		out[s] = true
	}
	return out, rows.Err()
}
