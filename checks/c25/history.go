package c25

import (
	"encoding/json"
	"expvar"
	"fmt"
	"net/url"
	"os"
	"path/filepath"
	"regexp"
	"runtime/pprof"
	"strings"
	"time"

	"verif/internal/hcluster"
	"verif/internal/sqlref"
	"verif/internal/vf"
)

// expEntry is what one applied log entry must deliver.
type expEntry struct {
	Req    int      `json:"req"`
	Index  uint64   `json:"index"` // 0 = outcome was unknown to the client; resolved by state comparison
	Groups [][]pev  `json:"groups"`
	Tx     bool     `json:"tx"`
	Kinds  []string `json:"kinds"`
	Stmts  []string `json:"stmts,omitempty"`
}

type reqLog struct {
	No     int    `json:"no"`
	Node   string `json:"node"`
	Status int    `json:"status"`
	Class  string `json:"class"` // applied | refused | unknown:0 | unknown:1 | unknown:2
	Index  uint64 `json:"index,omitempty"`
	Note   string `json:"note,omitempty"`
}

type histOut struct {
	Spec        caseSpec         `json:"spec"`
	Reqs        []reqLog         `json:"reqs"`
	Expected    []expEntry       `json:"expected"`
	Receipts    []receipt        `json:"receipts"`
	LeaderEvs   []leaderEv       `json:"leader_events"`
	Faults      []string         `json:"faults"`
	Leaders     []string         `json:"leaders_seen"`
	Expvar      map[string]int64 `json:"expvar"`
	SetupErr    string           `json:"setup_err,omitempty"`
	Inconcl     string           `json:"inconclusive,omitempty"`
	Marks       []mark           `json:"marks"`
	DrainQuiet  bool             `json:"drain_quiet"`
	DrainWaitMs int64            `json:"drain_wait_ms"`
}

func worker(args []string) {
	var caseNo int
	var seed int64
	fmt.Sscan(args[0], &caseNo)
	fmt.Sscan(args[1], &seed)
	tier, dir, outF := args[2], args[3], args[4]
	c := &vf.Ctx{ID: "C25", Seed: seed, Tier: tier}
	h, cleanup := runHistory(c, caseNo, dir)
	b, _ := json.Marshal(h)
	os.WriteFile(outF, b, 0644)
	// Shutdown is not part of the property; the observations are on disk.
	done := make(chan struct{})
	go func() { cleanup(); close(done) }()
	select {
	case <-done:
	case <-time.After(60 * time.Second):
		logf("close watchdog: shutdown still running after 60 s; goroutines follow")
		pprof.Lookup("goroutine").WriteTo(os.Stderr, 1)
	}
	os.Exit(0)
}

func logf(format string, a ...any) {
	fmt.Fprintf(os.Stderr, "[c25w %s] %s\n", time.Now().Format("15:04:05.000"), fmt.Sprintf(format, a...))
}

var setupReqs = []reqSpec{
	{No: -3, Tx: true, Stmts: []string{
		"CREATE TABLE t (id INTEGER PRIMARY KEY, k INTEGER UNIQUE, v TEXT, n INTEGER CHECK(n >= 0))",
		"CREATE TABLE u (a INTEGER, b TEXT)",
		"CREATE TABLE nf (id INTEGER PRIMARY KEY, v TEXT)",
	}, Kinds: []string{"ddl-create", "ddl-create", "ddl-create"}},
	{No: -2, Tx: true, Stmts: []string{
		"INSERT INTO t(k,v,n) VALUES(1,'a',0),(2,'b',1),(3,'c',2),(4,'d',3),(5,'e',0),(6,'f',2)",
		"INSERT INTO u(a,b) VALUES(1,'x'),(2,'y'),(3,'z')",
	}, Kinds: []string{"insertN", "insertU"}},
	{No: -1, Stmts: []string{"INSERT INTO nf(v) VALUES('seed')"}, Kinds: []string{"insertNF"}},
}

// mark is a harness action on one node, placed in the same sequence as the
// payload receipts and leader-change signals.
type mark struct {
	Seq      int64  `json:"seq"`
	Kind     string `json:"kind"` // snapshot | restart | install (a snapshot sent by the leader was installed on the running node)
	Node     string `json:"node"`
	Applied  uint64 `json:"applied_index,omitempty"` // the node's applied index when a snapshot was requested; for install: the index of the installed snapshot
	IsLeader bool   `json:"is_leader,omitempty"`
	Status   int    `json:"status,omitempty"`
	From     uint64 `json:"from_index,omitempty"` // install: the node's applied index when it was cut off (entries in (From, Applied] were never applied one by one on it)
}

type postResult struct {
	status  int
	class   string // applied | refused | unknown
	index   uint64
	results []hcluster.Result
	note    string
}

func post(cl *hcluster.Cluster, n *hcluster.Node, rq *reqSpec) postResult {
	path := "/db/execute?raft_index"
	if rq.Tx {
		path += "&transaction"
	}
	var body []any
	for _, s := range rq.Stmts {
		body = append(body, s)
	}
	rr := cl.PostJSON(n, path, body)
	if rr.Err != nil {
		return postResult{class: "unknown", note: trunc(rr.Err.Error(), 160)}
	}
	pr := postResult{status: rr.Status}
	if rr.Status == 503 && strings.Contains(string(rr.Body), "leader not found") {
		pr.class = "refused"
		return pr
	}
	a, err := rr.Parse()
	if rr.Status != 200 || err != nil || a.Error != "" {
		pr.class = "unknown"
		pr.note = trunc(string(rr.Body), 160)
		return pr
	}
	if a.RaftIndex == 0 {
		pr.class = "unknown"
		pr.note = "200 without raft_index: " + trunc(string(rr.Body), 120)
		return pr
	}
	pr.class, pr.index, pr.results = "applied", a.RaftIndex, a.Results
	return pr
}

func trunc(s string, n int) string {
	if len(s) > n {
		return s[:n] + "…"
	}
	return s
}

// dumpCluster reads schema and content with strong reads (same form as shadow.dump).
func dumpCluster(cl *hcluster.Cluster) (string, error) {
	var last error
	for try := 0; try < 20; try++ {
		if try > 0 {
			time.Sleep(500 * time.Millisecond)
		}
		ld := cl.WaitLeader(20 * time.Second)
		if ld == nil {
			last = fmt.Errorf("no leader")
			continue
		}
		rr := cl.Do(ld, "GET", "/db/query?level=strong&q="+url.QueryEscape("SELECT name, type, sql FROM sqlite_master WHERE name NOT LIKE 'sqlite_%' ORDER BY name"), nil, nil)
		a, err := rr.Parse()
		if err != nil || rr.Status != 200 || a.Error != "" || len(a.Results) != 1 || a.Results[0].Error != "" {
			last = fmt.Errorf("master: %v %d %s", err, rr.Status, trunc(string(rr.Body), 120))
			continue
		}
		var sb strings.Builder
		var qs []any
		var tables []string
		for _, v := range a.Results[0].Values {
			fmt.Fprintf(&sb, "%s|%s|%s\n", dumpVal(v[0]), dumpVal(v[1]), dumpValEmpty(v[2]))
			if fmt.Sprint(v[1]) == "table" {
				tables = append(tables, fmt.Sprint(v[0]))
				qs = append(qs, "SELECT rowid, * FROM "+fmt.Sprint(v[0])+" ORDER BY rowid")
			}
		}
		if len(qs) > 0 {
			rr = cl.PostJSON(ld, "/db/query?level=strong", qs)
			a, err = rr.Parse()
			if err != nil || rr.Status != 200 || a.Error != "" || len(a.Results) != len(qs) {
				last = fmt.Errorf("tables: %v %d %s", err, rr.Status, trunc(string(rr.Body), 120))
				continue
			}
			bad := false
			for i, res := range a.Results {
				if res.Error != "" {
					last = fmt.Errorf("table %s: %s", tables[i], res.Error)
					bad = true
					break
				}
				fmt.Fprintf(&sb, "== %s\n", tables[i])
				for _, row := range res.Values {
					for j, v := range row {
						if j > 0 {
							sb.WriteByte(',')
						}
						sb.WriteString(dumpVal(v))
					}
					sb.WriteByte('\n')
				}
			}
			if bad {
				continue
			}
		}
		return sb.String(), nil
	}
	return "", last
}

func dumpValEmpty(v any) string {
	if v == nil {
		return ""
	}
	return dumpVal(v)
}

func resultsAgree(rq *reqSpec, got []hcluster.Result, want []sqlref.RefRes) string {
	if len(got) != len(want) {
		return fmt.Sprintf("request %d: %d results from rqlite, %d from the shadow", rq.No, len(got), len(want))
	}
	for i := range got {
		if (got[i].Error != "") != (want[i].Err != "") {
			return fmt.Sprintf("request %d statement %d (%s): rqlite error %q, shadow error %q", rq.No, want[i].StmtIdx, rq.Stmts[want[i].StmtIdx], got[i].Error, want[i].Err)
		}
		if got[i].Error == "" && got[i].RowsAffected != want[i].RowsAffected && !strings.HasPrefix(strings.ToUpper(rq.Stmts[want[i].StmtIdx]), "CREATE") && !strings.HasPrefix(strings.ToUpper(rq.Stmts[want[i].StmtIdx]), "DROP") {
			return fmt.Sprintf("request %d statement %d (%s): rows_affected %d vs shadow %d", rq.No, want[i].StmtIdx, rq.Stmts[want[i].StmtIdx], got[i].RowsAffected, want[i].RowsAffected)
		}
	}
	return ""
}

func runHistory(c *vf.Ctx, caseNo int, dir string) (h histOut, cleanup func()) {
	cleanup = func() {}
	cs := caseFor(c, caseNo)
	h.Spec = cs
	w := &world{cs: cs, insts: map[string]int{}, pending: map[string]*cdcInst{}, cdc: map[string]*cdcInst{}}
	if cs.Filter != "" {
		w.re = regexp.MustCompile(cs.Filter)
	}
	ep, err := newEndpoint(&w.seq, cs.EPSeed, transmitTimeout+150*time.Millisecond)
	if err != nil {
		h.SetupErr = err.Error()
		return
	}
	w.ep = ep
	ep.setCalm(true)
	cl := hcluster.New(filepath.Join(dir, "cluster"))
	w.cl = cl
	cl.HTTP.Timeout = 90 * time.Second
	cleanup = func() {
		w.stopAll()
		cl.Close()
		ep.srv.Close()
	}
	for i := 1; i <= 3; i++ {
		if _, err := w.addNode(fmt.Sprintf("n%d", i)); err != nil {
			h.SetupErr = fmt.Sprintf("add node %d: %v", i, err)
			return
		}
	}
	if cl.WaitLeader(60*time.Second) == nil {
		h.SetupErr = "no leader"
		return
	}
	sh, err := openShadow(filepath.Join(dir, "shadow.db"), w.re)
	if err != nil {
		h.SetupErr = "shadow: " + err.Error()
		return
	}

	leaders := map[string]bool{}
	noteLeader := func() {
		if ld := cl.Leader(); ld != nil {
			leaders[ld.Name] = true
		}
	}
	cloneNo := 0

	// apply one request end to end; returns false when the history cannot go on
	doReq := func(rq *reqSpec) bool {
		var node *hcluster.Node
		live := cl.Live()
		if rq.Node >= 0 && rq.Node < len(live) {
			node = live[rq.Node]
		} else if node = cl.Leader(); node == nil {
			node = live[(rq.No+3)%len(live)]
		}
		pr := post(cl, node, rq)
		lg := reqLog{No: rq.No, Node: node.Name, Status: pr.status, Class: pr.class, Index: pr.index, Note: pr.note}
		switch pr.class {
		case "applied":
			groups, res, err := sh.apply(rq)
			if err != nil {
				h.Inconcl = fmt.Sprintf("shadow failed on request %d: %v", rq.No, err)
				h.Reqs = append(h.Reqs, lg)
				return false
			}
			if d := resultsAgree(rq, pr.results, res); d != "" {
				h.Inconcl = "shadow and rqlite disagree on results: " + d
				h.Reqs = append(h.Reqs, lg)
				return false
			}
			h.Expected = append(h.Expected, expEntry{Req: rq.No, Index: pr.index, Groups: groups, Tx: rq.Tx, Kinds: rq.Kinds})
		case "refused":
		default:
			// Outcome unknown: nothing else is in flight (one client, the response
			// is in hand), so the committed state is S, S+X or S+X+X (re-send by
			// the inter-node client). Decide by comparing states.
			logf("request %d on %s: unknown outcome (%d %s); resolving", rq.No, node.Name, pr.status, pr.note)
			got, err := dumpCluster(cl)
			if err != nil {
				h.Inconcl = fmt.Sprintf("cannot read the cluster state after request %d: %v", rq.No, err)
				h.Reqs = append(h.Reqs, lg)
				return false
			}
			cur, _ := sh.dump()
			n := -1
			if got == cur {
				n = 0
			} else {
				cloneNo++
				cp, err := sh.clone(filepath.Join(dir, fmt.Sprintf("shadow-%d.db", cloneNo)))
				if err != nil {
					h.Inconcl = "clone shadow: " + err.Error()
					return false
				}
				var entries []expEntry
				for k := 1; k <= 2 && n < 0; k++ {
					groups, _, err := cp.apply(rq)
					if err != nil {
						break
					}
					entries = append(entries, expEntry{Req: rq.No, Groups: groups, Tx: rq.Tx, Kinds: rq.Kinds})
					if d, _ := cp.dump(); d == got {
						n = k
					}
				}
				if n > 0 {
					old := sh
					sh = cp
					old.close()
					removeShadowFiles(old.path)
					h.Expected = append(h.Expected, entries...)
				} else {
					cp.close()
					removeShadowFiles(cp.path)
				}
			}
			if n < 0 {
				h.Inconcl = fmt.Sprintf("state after request %d with unknown outcome is neither S, S+X nor S+X+X", rq.No)
				h.Reqs = append(h.Reqs, lg)
				return false
			}
			lg.Class = fmt.Sprintf("unknown:%d", n)
		}
		h.Reqs = append(h.Reqs, lg)
		return true
	}

	for i := range setupReqs {
		for try := 0; ; try++ {
			if !doReq(&setupReqs[i]) {
				return
			}
			last := h.Reqs[len(h.Reqs)-1]
			if last.Class == "applied" || last.Class == "unknown:1" {
				break
			}
			if try == 20 || last.Class == "unknown:2" {
				h.SetupErr = fmt.Sprintf("setup request %d: %+v", i, last)
				return
			}
			cl.WaitLeader(30 * time.Second)
			time.Sleep(200 * time.Millisecond)
		}
	}
	switch cs.Directed {
	case "":
	case motifLagInstall:
		if !runDirectedLag(w, &h, doReq, noteLeader) {
			return
		}
	default:
		if !runDirected(w, &h, doReq, noteLeader) {
			return
		}
	}
	ep.setCalm(false)
	outageUntil := -1
	for i := range cs.Requests {
		if cs.Directed != "" {
			break
		}
		rq := &cs.Requests[i]
		if outageUntil >= 0 && i >= outageUntil {
			ep.setOutage(false)
			outageUntil = -1
			h.Faults = append(h.Faults, fmt.Sprintf("@%d outage-end", i))
		}
		for _, f := range cs.Faults[i] {
			noteLeader()
			live := cl.Live()
			ld := cl.Leader()
			victim := ld
			if f.Victim < len(live) {
				victim = live[f.Victim]
			}
			desc := fmt.Sprintf("@%d %s", i, f.Kind)
			switch f.Kind {
			case "stepdown":
				if ld != nil {
					desc += ":" + ld.Name
					go ld.Store.Stepdown(false, "")
				}
			case "restart":
				if victim == nil {
					victim = live[0]
				}
				desc += ":" + victim.Name
				if victim == ld {
					desc += "(leader)"
				}
				logf("fault %s", desc)
				h.Marks = append(h.Marks, mark{Seq: w.seq.Add(1), Kind: "restart", Node: victim.Name, IsLeader: victim == ld})
				if err := w.restart(victim); err != nil {
					h.Inconcl = "restart failed: " + err.Error()
					return
				}
				desc += fmt.Sprintf(":dropped_cdc_events=%d", droppedCDC())
			case "snapshot":
				if victim == nil {
					victim = live[0]
				}
				mk := mark{Kind: "snapshot", Node: victim.Name, Applied: victim.Store.AppliedIndex(), IsLeader: victim.Store.IsLeader()}
				rr := cl.Do(victim, "POST", fmt.Sprintf("/snapshot?trailing_logs=%d", f.Param*5), nil, nil)
				mk.Seq, mk.Status = w.seq.Add(1), rr.Status
				h.Marks = append(h.Marks, mk)
				desc += fmt.Sprintf(":%s:trailing=%d:status=%d", victim.Name, f.Param*5, rr.Status)
			case "outage":
				ep.setOutage(true)
				outageUntil = i + f.Param
				desc += fmt.Sprintf(":%d-requests", f.Param)
			}
			logf("fault %s", desc)
			h.Faults = append(h.Faults, desc)
		}
		if !doReq(rq) {
			return
		}
		if rq.SleepMs > 0 {
			time.Sleep(time.Duration(rq.SleepMs) * time.Millisecond)
		}
	}
	noteLeader()

	// ---- drain: endpoint healthy, no more faults, wait for quiet ----
	ep.setCalm(true)
	cl.Net.HealAll()
	logf("workload done; draining")
	t0 := time.Now()
	quietSince := time.Now()
	lastCount := ep.count()
	var lastLeader string
	for {
		time.Sleep(400 * time.Millisecond)
		ld := cl.Leader()
		quiet := false
		if ld != nil {
			w.mu.Lock()
			ci := w.cdc[ld.Name]
			w.mu.Unlock()
			if ci != nil && ci.svc.IsLeader() {
				st, _ := ci.svc.Stats()
				if f, ok := st["fifo"].(map[string]any); ok {
					if hn, _ := f["has_next"].(bool); !hn {
						quiet = true
					}
				}
			}
		}
		cnt := ep.count()
		name := ""
		if ld != nil {
			name = ld.Name
		}
		if !quiet || cnt != lastCount || name != lastLeader {
			quietSince = time.Now()
		}
		lastCount, lastLeader = cnt, name
		q := time.Since(quietSince)
		if q >= 2500*time.Millisecond {
			// early exit only when nothing that must arrive is still missing; the
			// long wait covers the batching delay (changes may still sit in a batcher)
			long := 10 * time.Second
			if d := time.Duration(cs.BatchDelayMs)*time.Millisecond + 5*time.Second; d > long {
				long = d
			}
			if q >= long || !anyRequiredMissing(h.Expected, ep.snapshot()) {
				h.DrainQuiet = true
				break
			}
		}
		if time.Since(t0) > 150*time.Second {
			break
		}
	}
	h.DrainWaitMs = time.Since(t0).Milliseconds()
	if !h.DrainQuiet {
		h.Inconcl = "the system did not become quiet within the drain bound"
	}
	noteLeader()

	// the shadow must describe the committed state, otherwise it proves nothing
	if h.Inconcl == "" {
		got, err := dumpCluster(cl)
		want, _ := sh.dump()
		if err != nil {
			h.Inconcl = "final state read failed: " + err.Error()
		} else if got != want {
			h.Inconcl = "final state of the cluster differs from the shadow: " + firstDiff(got, want)
		}
	}
	h.Receipts = ep.snapshot()
	w.mu.Lock()
	h.LeaderEvs = append([]leaderEv(nil), w.leaderEvs...)
	w.mu.Unlock()
	for n := range leaders {
		h.Leaders = append(h.Leaders, n)
	}
	h.Expvar = map[string]int64{}
	for _, m := range []string{"db", "cdc.service", "store"} {
		if em, ok := expvar.Get(m).(*expvar.Map); ok {
			em.Do(func(kv expvar.KeyValue) {
				if iv, ok := kv.Value.(*expvar.Int); ok {
					if m == "cdc.service" || strings.Contains(kv.Key, "cdc") || strings.Contains(kv.Key, "leader_changes") || strings.Contains(kv.Key, "snapshots") {
						h.Expvar[m+"."+kv.Key] = iv.Value()
					}
				}
			})
		}
	}
	return
}

// runDirected is the scripted history of genDirected. It returns false when
// the history cannot go on (h.Inconcl / h.SetupErr say why).
func runDirected(w *world, h *histOut, doReq func(*reqSpec) bool, noteLeader func()) bool {
	cs, cl, ep := w.cs, w.cl, w.ep
	snapshotOn := func(n *hcluster.Node) int {
		mk := mark{Kind: "snapshot", Node: n.Name, Applied: n.Store.AppliedIndex(), IsLeader: n.Store.IsLeader()}
		rr := cl.Do(n, "POST", "/snapshot", nil, nil)
		mk.Seq, mk.Status = w.seq.Add(1), rr.Status
		h.Marks = append(h.Marks, mk)
		h.Faults = append(h.Faults, fmt.Sprintf("snapshot:%s:leader=%v:applied=%d:status=%d", n.Name, mk.IsLeader, mk.Applied, rr.Status))
		logf("directed: %s", h.Faults[len(h.Faults)-1])
		return rr.Status
	}
	// 0. everything so far delivered (the leader's batcher is flushed by a snapshot on the leader)
	ld := cl.WaitLeader(30 * time.Second)
	if ld == nil {
		h.Inconcl = "directed: no leader"
		return false
	}
	noteLeader()
	snapshotOn(ld)
	for t0 := time.Now(); anyRequiredMissing(h.Expected, ep.snapshot()); {
		if time.Since(t0) > 60*time.Second {
			h.Inconcl = "directed: the setup changes were not delivered within 60 s"
			return false
		}
		time.Sleep(200 * time.Millisecond)
	}
	// 1. endpoint down: nobody can deliver, no high-water mark moves
	ep.setCalm(false)
	ep.setOutage(true)
	h.Faults = append(h.Faults, "outage:start")
	// 2. W1 on the leader; every node captures the changes into its batcher
	var lastIdx uint64
	for i := 0; i < cs.NW1; i++ {
		if !doReq(&cs.Requests[i]) {
			return false
		}
		if lg := h.Reqs[len(h.Reqs)-1]; lg.Class != "applied" {
			h.Inconcl = fmt.Sprintf("directed: W1 request %d was not plainly applied (%s)", i, lg.Class)
			return false
		} else {
			lastIdx = lg.Index
		}
	}
	// 3. a follower that has applied W1 takes a snapshot inside the batching window ...
	ld = cl.Leader()
	var followers []*hcluster.Node
	for _, n := range cl.Live() {
		if n != ld {
			followers = append(followers, n)
		}
	}
	if ld == nil || len(followers) != 2 {
		h.Inconcl = "directed: leadership moved during W1"
		return false
	}
	f := followers[cs.Pick%2]
	for t0 := time.Now(); f.Store.AppliedIndex() < lastIdx; {
		if time.Since(t0) > 20*time.Second {
			h.Inconcl = "directed: follower did not apply W1 within 20 s"
			return false
		}
		time.Sleep(10 * time.Millisecond)
	}
	t1 := time.Now()
	if st := snapshotOn(f); st != 200 {
		h.Inconcl = fmt.Sprintf("directed: snapshot on follower %s answered %d", f.Name, st)
		return false
	}
	if f.Store.IsLeader() {
		h.Inconcl = "directed: the follower became leader"
		return false
	}
	// 4. ... and goes down at once
	h.Marks = append(h.Marks, mark{Seq: w.seq.Add(1), Kind: "restart", Node: f.Name})
	name := f.Name
	if err := w.restart(f); err != nil {
		h.Inconcl = "restart failed: " + err.Error()
		return false
	}
	h.Faults = append(h.Faults, fmt.Sprintf("restart:%s:%dms-after-snapshot-request", name, time.Since(t1).Milliseconds()))
	logf("directed: %s", h.Faults[len(h.Faults)-1])
	// 5. leadership moves to the restarted node while the endpoint is still down
	var nf *hcluster.Node
	for t0 := time.Now(); ; {
		for _, n := range cl.Live() {
			if n.Name == name {
				nf = n
			}
		}
		cur := cl.Leader()
		if cur != nil && cur == nf {
			break
		}
		if time.Since(t0) > 60*time.Second {
			h.Inconcl = "directed: leadership could not be moved to the restarted node within 60 s"
			return false
		}
		if cur != nil {
			cur.Store.Stepdown(true, nf.ID)
		}
		time.Sleep(300 * time.Millisecond)
	}
	noteLeader()
	h.Faults = append(h.Faults, "leadership-moved-to:"+name)
	// the service must know it too before the endpoint comes back
	for t0 := time.Now(); ; {
		w.mu.Lock()
		ci := w.cdc[name]
		w.mu.Unlock()
		if ci != nil && ci.svc.IsLeader() {
			break
		}
		if time.Since(t0) > 30*time.Second {
			h.Inconcl = "directed: the CDC service of the new leader never learnt it is leader"
			return false
		}
		time.Sleep(50 * time.Millisecond)
	}
	// 6. endpoint back; W2 on the new leader, flushed by a snapshot on the leader
	ep.setCalm(true)
	h.Faults = append(h.Faults, "outage:end")
	for i := cs.NW1; i < len(cs.Requests); i++ {
		if !doReq(&cs.Requests[i]) {
			return false
		}
	}
	if cur := cl.Leader(); cur != nil {
		snapshotOn(cur)
	}
	return true
}

func droppedCDC() int64 {
	if em, ok := expvar.Get("db").(*expvar.Map); ok {
		if iv, ok := em.Get("dropped_cdc_events").(*expvar.Int); ok {
			return iv.Value()
		}
	}
	return -1
}

func firstDiff(a, b string) string {
	la, lb := strings.Split(a, "\n"), strings.Split(b, "\n")
	for i := 0; i < len(la) || i < len(lb); i++ {
		var x, y string
		if i < len(la) {
			x = la[i]
		}
		if i < len(lb) {
			y = lb[i]
		}
		if x != y {
			return fmt.Sprintf("line %d: cluster %q, shadow %q", i, trunc(x, 100), trunc(y, 100))
		}
	}
	return "equal"
}
