package c21

import (
	"encoding/json"
	"expvar"
	"fmt"
	"io"
	"math/rand/v2"
	"net"
	"net/http"
	"os"
	"path/filepath"
	"strings"
	"sync"
	"sync/atomic"
	"syscall"
	"time"

	"github.com/rqlite/rqlite/v10/cluster"
	httpd "github.com/rqlite/rqlite/v10/http"
	"github.com/rqlite/rqlite/v10/proxy"
	"github.com/rqlite/rqlite/v10/tcp"
	"verif/internal/hcluster"
)

// ---- job / case / result records (driver <-> worker) ----

type bcase struct {
	No       int    `json:"no"`
	Fmt      string `json:"fmt"` // binary | delete | sql
	Vacuum   bool   `json:"vacuum,omitempty"`
	Compress bool   `json:"compress,omitempty"`
	Tables   string `json:"tables,omitempty"`
	Route    string `json:"route"` // leader | forward | noleader
	// stream cut (Route == forward only)
	CutMode string `json:"cut_mode,omitempty"` // reset (faultnet CutNextAfter) | eof (peer closes) | rst (connection reset by peer)
	CutPos  string `json:"cut_pos,omitempty"`  // abs:N | end:-K | pm:P (per mille of the stream length)
	// CutAll (eof, rst): every connection the follower uses for this request is
	// cut at the same position (a link that stays broken). Otherwise only the
	// first connection used is cut and any further one works (a transient fault).
	CutAll bool `json:"cut_all,omitempty"`
}

func (b bcase) cutName() string {
	if b.CutAll {
		return b.CutMode + "-all"
	}
	return b.CutMode
}

func (b bcase) combo() string {
	return fmt.Sprintf("%s|v%v|c%v|t=%s|%s|%s", b.Fmt, b.Vacuum, b.Compress, b.Tables, b.Route, b.cutName())
}

func (b bcase) query() string {
	q := []string{"fmt=" + b.Fmt}
	if b.Vacuum {
		q = append(q, "vacuum")
	}
	if b.Compress {
		q = append(q, "compress")
	}
	if b.Tables != "" {
		q = append(q, "tables="+b.Tables)
	}
	if b.Route == "noleader" {
		q = append(q, "noleader")
	}
	if b.Route == "forward" && b.Compress && b.CutMode == "" {
		// rqlite's inter-node client cannot see the end of a compressed stream and
		// reads until this timeout expires (default 30s); keep the wait short
		q = append(q, "timeout=4s")
	}
	return "/db/backup?" + strings.Join(q, "&")
}

type spec struct {
	Job     int     `json:"job"`
	Kind    string  `json:"kind"` // mix | cut
	Seed    int64   `json:"seed"`
	Dir     string  `json:"dir"`
	Writers int     `json:"writers"`
	Prepop  int     `json:"prepop"`
	Cases   []bcase `json:"cases"`
	// cut jobs: a dense sweep [DenseLo, DenseHi) (per mille of stream length, step DenseStep bytes)
	Dense     *bcase `json:"dense,omitempty"`
	DenseLo   int    `json:"dense_lo,omitempty"`
	DenseHi   int    `json:"dense_hi,omitempty"`
	DenseStep int    `json:"dense_step,omitempty"`
}

type bres struct {
	Case     bcase `json:"case"`
	Job      int   `json:"job"`
	N        int64 `json:"n,omitempty"` // cut position (bytes delivered to the follower)
	L        int64 `json:"l,omitempty"` // length of the inter-node stream
	CutFired bool  `json:"cut_fired,omitempty"`
	Attempts int   `json:"attempts,omitempty"`
	// eof/rst cuts: what the follower's inter-node client did during the request
	ConnsUsed int     `json:"conns_used,omitempty"` // connections it sent the backup command on
	ConnsCut  int     `json:"conns_cut,omitempty"`  // of those, how many failed at the cut position
	CutPooled bool    `json:"cut_pooled,omitempty"` // the first cut hit a connection that had served an earlier request
	RefLen    int64   `json:"ref_len,omitempty"`    // length of the complete (uncut) body for this request on the quiescent database
	Status    int     `json:"status"`
	ReqErr    string  `json:"req_err,omitempty"`  // no response headers
	BodyErr   string  `json:"body_err,omitempty"` // response aborted while the body was read
	BodyLen   int     `json:"body_len"`
	ErrText   string  `json:"err_text,omitempty"` // body of a non-200
	ServedBy  string  `json:"served_by,omitempty"`
	Ms        float64 `json:"ms"`
	LB        []int64 `json:"acked_at_start,omitempty"`
	UB        []int64 `json:"started_at_end,omitempty"`
	Exam      *exam   `json:"exam,omitempty"`
	PIT       string  `json:"pit,omitempty"` // why the vector is not a single point of the commit order
	Inconcl   string  `json:"inconclusive,omitempty"`
	Storm     bool    `json:"storm,omitempty"`
}

type jobres struct {
	Job       int      `json:"job"`
	Done      bool     `json:"done"`
	SetupErr  string   `json:"setup_err,omitempty"`
	Acked     []int64  `json:"acked"`
	WriterErr []string `json:"writer_err,omitempty"`
	Snapshots int64    `json:"leader_snapshots"`
	StreamLen int64    `json:"stream_len,omitempty"`
}

// ---- cutting dialer: the connection that carries a request delivers N bytes
// of the answer, then the peer is seen to close it (clean EOF, as when the
// remote node goes away or its backup fails midway: cluster/service.go
// returns, which closes the conn) or to reset it (ECONNRESET, the error a real
// TCP reset produces). The cut is claimed by the connection on which the next
// request is *written*, whether it is newly dialed or comes out of rqlite's
// inter-node connection pool; by default only that one connection is cut and
// every later one works (a transient fault), with all=true every connection
// used until disarm() is cut at the same position (a link that stays broken). ----

type cutArm struct {
	n    int64
	kind string // eof | rst
	all  bool
	gen  int64
	// observed since arm()
	conns  int // connections a request was written on
	claims int // of those, how many the fault was applied to
	fired  int
	pooled bool // the first claim was made by a connection that had been used before
}

type eofDialer struct {
	inner *tcp.Dialer
	mu    sync.Mutex
	armed *cutArm
	gen   int64
	dials int
}

func (d *eofDialer) arm(n int64, kind string, all bool) {
	d.mu.Lock()
	d.gen++
	d.armed = &cutArm{n: n, kind: kind, all: all, gen: d.gen}
	d.mu.Unlock()
}

// disarm ends the fault and returns what was observed while it was armed.
func (d *eofDialer) disarm() cutArm {
	d.mu.Lock()
	defer d.mu.Unlock()
	var a cutArm
	if d.armed != nil {
		a = *d.armed
	}
	d.armed = nil
	d.gen++
	return a
}

func (d *eofDialer) Dial(addr string, timeout time.Duration) (net.Conn, error) {
	c, err := d.inner.Dial(addr, timeout)
	if err != nil {
		return nil, err
	}
	d.mu.Lock()
	d.dials++
	d.mu.Unlock()
	return &eofConn{Conn: c, d: d, rem: -1}, nil
}

type eofConn struct {
	net.Conn
	d    *eofDialer
	mu   sync.Mutex
	rem  int64 // bytes still readable before the cut; -1 unlimited
	gen  int64 // generation of the fault this connection claimed
	arm  *cutArm
	kind string
	used int // requests written on this connection
	dead bool
}

func (c *eofConn) readErr() error {
	if c.kind == "rst" {
		return &net.OpError{Op: "read", Net: "tcp", Source: c.Conn.LocalAddr(), Addr: c.Conn.RemoteAddr(),
			Err: os.NewSyscallError("read", syscall.ECONNRESET)}
	}
	return io.EOF
}

func (c *eofConn) Read(p []byte) (int, error) {
	c.mu.Lock()
	if c.dead {
		c.mu.Unlock()
		return 0, c.readErr()
	}
	if c.rem == 0 {
		c.dead = true
		arm := c.arm
		c.mu.Unlock()
		c.d.mu.Lock()
		if arm != nil {
			arm.fired++
		}
		c.d.mu.Unlock()
		c.Conn.Close() // the remote node must not stay blocked writing the rest
		return 0, c.readErr()
	}
	if c.rem > 0 && int64(len(p)) > c.rem {
		p = p[:c.rem]
	}
	c.mu.Unlock()
	n, err := c.Conn.Read(p)
	c.mu.Lock()
	if c.rem > 0 {
		c.rem -= int64(n)
	}
	c.mu.Unlock()
	return n, err
}

// Write: the first write of a request decides whether this connection is the
// one (or one of those) the armed fault applies to.
func (c *eofConn) Write(p []byte) (int, error) {
	c.mu.Lock()
	if c.dead {
		c.mu.Unlock()
		return 0, &net.OpError{Op: "write", Net: "tcp", Source: c.Conn.LocalAddr(), Addr: c.Conn.RemoteAddr(),
			Err: os.NewSyscallError("write", syscall.EPIPE)}
	}
	c.d.mu.Lock()
	cur := c.d.gen
	if a := c.d.armed; a != nil && c.gen != a.gen && (a.all || a.claims == 0) {
		if a.claims == 0 {
			a.pooled = c.used > 0
		}
		a.claims++
		a.conns++
		c.gen, c.arm, c.kind, c.rem = a.gen, a, a.kind, a.n
		c.used++
	} else if c.gen != cur {
		// a new request on a connection that survived an earlier fault (or was
		// never cut): no budget carries over
		if c.rem >= 0 {
			c.rem, c.arm = -1, nil
		}
		c.gen = cur
		c.used++
		if a := c.d.armed; a != nil {
			a.conns++
		}
	}
	c.d.mu.Unlock()
	c.mu.Unlock()
	return c.Conn.Write(p)
}

// A connection whose peer went away still accepts deadlines.
func (c *eofConn) isDead() bool {
	c.mu.Lock()
	defer c.mu.Unlock()
	return c.dead
}

func (c *eofConn) SetDeadline(t time.Time) error {
	if c.isDead() {
		return nil
	}
	return c.Conn.SetDeadline(t)
}

func (c *eofConn) SetReadDeadline(t time.Time) error {
	if c.isDead() {
		return nil
	}
	return c.Conn.SetReadDeadline(t)
}

func (c *eofConn) SetWriteDeadline(t time.Time) error {
	if c.isDead() {
		return nil
	}
	return c.Conn.SetWriteDeadline(t)
}

// ---- the worker ----

type env struct {
	sp      spec
	m       model
	cl      *hcluster.Cluster
	ld, fo  *hcluster.Node
	eofD    *eofDialer
	eofURL  string // second HTTP service on the follower whose cluster client uses eofD
	hc      *http.Client
	started []atomic.Int64
	acked   []atomic.Int64
	idxMu   sync.Mutex
	idx     [][]uint64 // idx[w-1][i] = raft index of tx(w,i) (0 unknown)
	logf    func(string, ...any)
}

func worker(args []string) {
	var sp spec
	if err := json.Unmarshal([]byte(args[0]), &sp); err != nil {
		fmt.Fprintln(os.Stderr, "bad spec:", err)
		os.Exit(2)
	}
	enc := json.NewEncoder(os.Stdout)
	var outMu sync.Mutex
	emit := func(v any) {
		outMu.Lock()
		enc.Encode(v)
		outMu.Unlock()
	}
	jr := jobres{Job: sp.Job}
	t0 := time.Now()
	e := &env{sp: sp, m: model{Seed: sp.Seed, Writers: sp.Writers}}
	e.logf = func(f string, a ...any) {
		fmt.Fprintf(os.Stderr, "[c21 job %d %6.2fs] %s\n", sp.Job, time.Since(t0).Seconds(), fmt.Sprintf(f, a...))
	}
	defer os.RemoveAll(sp.Dir)
	if err := e.setup(); err != nil {
		jr.SetupErr = err.Error()
		e.logf("setup failed: %v", err)
		emit(map[string]any{"jobres": jr})
		if e.cl != nil {
			e.cl.Close()
		}
		return
	}
	defer e.cl.Close()

	var results []*bres
	switch sp.Kind {
	case "mix":
		results = e.runMix(2, 3000)
	case "storm":
		// many overlapping binary backups (each one snapshots first) under the
		// fastest write load: aimed at the copy of the main file racing a checkpoint
		results = e.runMix(5, 300)
	case "cut":
		results = e.runCut(&jr)
	}
	// point-in-time check needs the complete index table, so it runs last
	for _, r := range results {
		if r.Exam != nil && r.Exam.Vector != nil && r.Exam.DecodeErr == "" {
			r.PIT = e.pointInTime(r.Exam.Vector)
		}
		emit(map[string]any{"bres": r})
	}
	for w := 0; w < sp.Writers; w++ {
		jr.Acked = append(jr.Acked, e.acked[w].Load())
	}
	jr.Snapshots = int64(numSnapshots(e.ld))
	jr.Done = true
	emit(map[string]any{"jobres": jr})
}

func numSnapshots(n *hcluster.Node) int {
	// process-wide expvar counter of the store package (both nodes)
	if m, ok := expvar.Get("store").(*expvar.Map); ok {
		if v, ok := m.Get("num_snapshots").(*expvar.Int); ok {
			return int(v.Value())
		}
	}
	return -1
}

func (e *env) setup() error {
	sp := e.sp
	e.cl = hcluster.New(sp.Dir)
	e.cl.HTTP.Timeout = 120 * time.Second
	opt := func(id string) hcluster.Options {
		return hcluster.Options{ID: id, HeartbeatTimeout: 4 * time.Second, ElectionTimeout: 4 * time.Second,
			LeaderLease: 4 * time.Second, SnapshotThreshold: 40, SnapshotInterval: 150 * time.Millisecond}
	}
	var err error
	if e.ld, err = e.cl.Add(opt("n1"), true); err != nil {
		return fmt.Errorf("leader: %w", err)
	}
	if e.fo, err = e.cl.Add(opt("n2"), true); err != nil {
		return fmt.Errorf("follower: %w", err)
	}
	if l := e.cl.WaitLeader(60 * time.Second); l == nil || l != e.ld {
		return fmt.Errorf("no stable leader on n1")
	}
	// second HTTP front on the follower, identical wiring, harness-owned dialer
	e.eofD = &eofDialer{inner: tcp.NewDialer(cluster.MuxClusterHeader, nil), gen: 1}
	ecl := cluster.NewClient(e.eofD, 30*time.Second)
	epx := proxy.New(e.fo.Store, ecl)
	esv := httpd.New("127.0.0.1:0", e.fo.Store, ecl, epx, nil)
	if err := esv.Start(); err != nil {
		return fmt.Errorf("second http service: %w", err)
	}
	epx.SetAPIAddr(esv.Addr().String())
	e.eofURL = "http://" + esv.Addr().String()
	e.hc = &http.Client{Timeout: 150 * time.Second, Transport: &http.Transport{MaxIdleConnsPerHost: 16},
		CheckRedirect: func(*http.Request, []*http.Request) error { return http.ErrUseLastResponse }}

	e.started = make([]atomic.Int64, sp.Writers)
	e.acked = make([]atomic.Int64, sp.Writers)
	e.idx = make([][]uint64, sp.Writers)
	for w := range e.idx {
		e.idx[w] = make([]uint64, 1, 4096)
	}
	r := e.cl.PostJSON(e.ld, "/db/execute?transaction", e.m.schema())
	if a, err := r.Parse(); err != nil || r.Status != 200 || hasErr(a) {
		return fmt.Errorf("schema: %v %d %s", err, r.Status, r.Body)
	}
	// pre-populate: batches of whole transactions, each batch one atomic request
	const batch = 25
	for w := 1; w <= sp.Writers; w++ {
		for lo := 1; lo <= sp.Prepop; lo += batch {
			hi := min(lo+batch-1, sp.Prepop)
			var st []any
			for i := lo; i <= hi; i++ {
				st = append(st, e.m.stmts(w, i)...)
			}
			e.started[w-1].Store(int64(hi))
			r := e.cl.PostJSON(e.ld, "/db/execute?transaction&raft_index", st)
			a, err := r.Parse()
			if err != nil || r.Status != 200 || hasErr(a) {
				return fmt.Errorf("prepopulate: %v %d %.200s", err, r.Status, r.Body)
			}
			e.idxMu.Lock()
			for i := lo; i <= hi; i++ {
				e.idx[w-1] = append(e.idx[w-1], a.RaftIndex)
			}
			e.idxMu.Unlock()
			e.acked[w-1].Store(int64(hi))
		}
	}
	if !e.cl.WaitConverged(60 * time.Second) {
		return fmt.Errorf("follower did not catch up after pre-population")
	}
	return nil
}

func hasErr(a *hcluster.APIResponse) bool {
	if a == nil || a.Error != "" {
		return true
	}
	for _, r := range a.Results {
		if r.Error != "" {
			return true
		}
	}
	return false
}

// writer runs tx(w,i) for i = acked+1… until stop; it stops on the first
// request whose outcome it does not know.
func (e *env) writer(w int, stop *atomic.Bool, pace func() time.Duration, errs *[]string, mu *sync.Mutex) {
	for !stop.Load() {
		i := int(e.acked[w-1].Load()) + 1
		e.started[w-1].Store(int64(i))
		r := e.cl.PostJSON(e.ld, "/db/execute?transaction&raft_index", e.m.stmts(w, i))
		a, err := r.Parse()
		if err != nil || r.Status != 200 || hasErr(a) {
			mu.Lock()
			*errs = append(*errs, fmt.Sprintf("writer %d stopped at i=%d: %v %d %.200s", w, i, err, r.Status, r.Body))
			mu.Unlock()
			e.logf("writer %d stopped at i=%d: %v %d %.200s", w, i, err, r.Status, r.Body)
			return
		}
		e.idxMu.Lock()
		e.idx[w-1] = append(e.idx[w-1], a.RaftIndex)
		e.idxMu.Unlock()
		e.acked[w-1].Store(int64(i))
		if d := pace(); d > 0 {
			time.Sleep(d)
		}
	}
}

// pointInTime decides whether the vector is a state of the commit order: there
// must be a log position P with every included transaction at or before P and
// every excluded one after P.
func (e *env) pointInTime(vec []int64) string {
	e.idxMu.Lock()
	defer e.idxMu.Unlock()
	var lo, hi uint64
	var loW, hiW int
	for w, l := range vec {
		if l < 0 {
			return ""
		}
		ix := e.idx[w]
		if l >= 1 && int(l) < len(ix) && ix[l] != 0 && ix[l] > lo {
			lo, loW = ix[l], w+1
		}
		if int(l)+1 < len(ix) && ix[l+1] != 0 && (hi == 0 || ix[l+1] < hi) {
			hi, hiW = ix[l+1], w+1
		}
	}
	if lo != 0 && hi != 0 && lo >= hi {
		return fmt.Sprintf("vector %v contains tx(%d,%d) committed at raft index %d but not tx(%d,%d) committed at index %d", vec, loW, vec[loW-1], lo, hiW, vec[hiW-1]+1, hi)
	}
	return ""
}

func (e *env) snapVec(a []atomic.Int64) []int64 {
	out := make([]int64, len(a))
	for i := range a {
		out[i] = a[i].Load()
	}
	return out
}

// fetch performs one backup request and reads the whole body.
func (e *env) fetch(url string, r *bres) []byte {
	t0 := time.Now()
	defer func() { r.Ms = float64(time.Since(t0).Microseconds()) / 1000 }()
	resp, err := e.hc.Get(url)
	if err != nil {
		r.ReqErr = err.Error()
		return nil
	}
	defer resp.Body.Close()
	r.Status = resp.StatusCode
	r.ServedBy = resp.Header.Get("X-Rqlite-Served-By")
	body, err := io.ReadAll(resp.Body)
	if err != nil {
		r.BodyErr = err.Error()
	}
	r.BodyLen = len(body)
	if resp.StatusCode != 200 {
		r.ErrText = strings.TrimSpace(string(body))
		if len(r.ErrText) > 200 {
			r.ErrText = r.ErrText[:200]
		}
	}
	return body
}

func (e *env) urlFor(bc bcase) string {
	switch {
	case bc.CutMode == "eof" || bc.CutMode == "rst":
		return e.eofURL + bc.query()
	case bc.Route == "leader":
		return e.ld.URL(bc.query())
	default:
		return e.fo.URL(bc.query())
	}
}

// one executes a backup case without a cut.
func (e *env) one(bc bcase, scratch string) *bres {
	r := &bres{Case: bc, Job: e.sp.Job, Storm: e.sp.Kind == "storm"}
	r.LB = e.snapVec(e.acked)
	body := e.fetch(e.urlFor(bc), r)
	r.UB = e.snapVec(e.started)
	if r.ReqErr == "" && r.BodyErr == "" && r.Status == 200 {
		ex := restore(e.m, bc, body, scratch)
		os.RemoveAll(scratch)
		r.Exam = &ex
	}
	return r
}

func (e *env) runMix(clients, paceMicros int) []*bres {
	sp := e.sp
	var stop atomic.Bool
	var wg sync.WaitGroup
	var errs []string
	var mu sync.Mutex
	for w := 1; w <= sp.Writers; w++ {
		wg.Add(1)
		rw := rand.New(rand.NewPCG(uint64(sp.Seed), uint64(sp.Job*100+w)))
		go func(w int) {
			defer wg.Done()
			e.writer(w, &stop, func() time.Duration { return time.Duration(rw.IntN(paceMicros)) * time.Microsecond }, &errs, &mu)
		}(w)
	}
	// several backup clients, so that backups also overlap each other
	out := make([][]*bres, clients)
	var bw sync.WaitGroup
	for k := 0; k < clients; k++ {
		bw.Add(1)
		go func(k int) {
			defer bw.Done()
			rb := rand.New(rand.NewPCG(uint64(sp.Seed), uint64(sp.Job*100+50+k)))
			for ci := k; ci < len(sp.Cases); ci += clients {
				time.Sleep(time.Duration(rb.IntN(20)) * time.Millisecond)
				r := e.one(sp.Cases[ci], filepath.Join(sp.Dir, fmt.Sprintf("r%d", ci)))
				out[k] = append(out[k], r)
			}
		}(k)
	}
	bw.Wait()
	stop.Store(true)
	wg.Wait()
	var all []*bres
	for _, o := range out {
		all = append(all, o...)
	}
	if len(errs) > 0 {
		e.logf("writer errors: %v", errs)
	}
	return all
}

// ---- stream cuts ----

func resolvePos(pos string, L int64) int64 {
	var v int64
	switch {
	case strings.HasPrefix(pos, "abs:"):
		fmt.Sscan(pos[4:], &v)
		return v
	case strings.HasPrefix(pos, "end:"):
		fmt.Sscan(pos[4:], &v)
		return L + v
	case strings.HasPrefix(pos, "pm:"):
		fmt.Sscan(pos[3:], &v)
		return L * v / 1000
	}
	return -1
}

// streamLen measures the inter-node stream of a forwarded backup of this
// format on the quiescent database: 8 bytes length prefix + empty response
// message + the gzip stream the leader produces (always compressed on the wire).
func (e *env) streamLen(bc bcase) (int64, int64, error) {
	p := bc
	p.Route, p.Compress, p.CutMode, p.CutPos = "leader", true, "", ""
	var r bres
	body := e.fetch(e.urlFor(p), &r)
	if r.ReqErr != "" || r.BodyErr != "" || r.Status != 200 {
		return 0, 0, fmt.Errorf("measuring stream: %s %s status %d %s", r.ReqErr, r.BodyErr, r.Status, r.ErrText)
	}
	plain, err := gunzipAll(body)
	if err != nil {
		return 0, 0, fmt.Errorf("measuring stream: %v", err)
	}
	return 8 + int64(len(body)), int64(len(plain)), nil
}

func (e *env) cutEvents() int {
	n := 0
	for _, ev := range e.cl.Net.Events() {
		if ev.Kind == "cut" && ev.Src == "n2" && ev.Dst == "n1" && ev.Chan == "cluster" {
			n++
		}
	}
	return n
}

func (e *env) dialEvents() int {
	n := 0
	for _, ev := range e.cl.Net.Events() {
		if ev.Kind == "dial" && ev.Src == "n2" && ev.Dst == "n1" && ev.Chan == "cluster" {
			n++
		}
	}
	return n
}

// oneCut executes a forwarded backup whose inter-node connection delivers only
// n bytes. reset: the cut applies to the next connection the follower dials
// (faultnet); rqlite pools inter-node connections, so a request that was
// served on a pooled (old) connection did not consume the armed cut and is
// repeated. eof / rst: the cut applies to the connection the backup command
// is written on, pooled or new (see eofDialer).
func (e *env) oneCut(bc bcase, n, L, refLen int64, scratch string) *bres {
	r := &bres{Case: bc, Job: e.sp.Job, N: n, L: L}
	own := bc.CutMode == "eof" || bc.CutMode == "rst"
	for attempt := 1; attempt <= 6; attempt++ {
		*r = bres{Case: bc, Job: e.sp.Job, N: n, L: L, RefLen: refLen, Attempts: attempt}
		var dials0, fired0 int
		if own {
			if bc.No%2 == 1 {
				// odd cases: the pool holds a working connection (the cut then hits a
				// connection that has served requests before); even cases: whatever
				// the previous case left there, or nothing (newly dialed connection)
				e.warmPool()
			}
			e.eofD.arm(n, bc.CutMode, bc.CutAll)
		} else {
			e.cl.Net.KillChan("n2", "n1", "cluster")
			dials0, fired0 = e.dialEvents(), e.cutEvents()
			e.cl.Net.CutNextAfter("n2", "n1", "cluster", n)
		}
		r.LB = e.snapVec(e.acked)
		body := e.fetch(e.urlFor(bc), r)
		r.UB = e.snapVec(e.started)
		if own {
			a := e.eofD.disarm()
			if a.claims == 0 {
				// the command could not even be written (a connection left dead in
				// the pool by an earlier case): nothing was cut yet
				continue
			}
			r.CutFired = a.fired > 0
			r.ConnsUsed, r.ConnsCut, r.CutPooled = a.conns, a.fired, a.pooled
		} else {
			dials, fired := e.dialEvents(), e.cutEvents()
			if dials == dials0 {
				continue // served (or failed) on a pooled connection: the cut is still armed
			}
			r.CutFired = fired > fired0
		}
		if r.ReqErr == "" && r.BodyErr == "" && r.Status == 200 {
			ex := restore(e.m, bc, body, scratch)
			os.RemoveAll(scratch)
			r.Exam = &ex
		}
		return r
	}
	if own {
		r.Inconcl = "the backup command was not written on any inter-node connection in 6 attempts"
	} else {
		r.Inconcl = "no new inter-node connection was dialed in 6 attempts"
	}
	return r
}

// warmPool sends small forwarded reads through the follower's second HTTP
// front until one succeeds: connections left dead in the inter-node pool are
// discarded by rqlite on the way and a working one is pooled.
func (e *env) warmPool() bool {
	for i := 0; i < 4; i++ {
		resp, err := e.hc.Get(e.eofURL + "/db/query?q=SELECT%201")
		if err != nil {
			continue
		}
		io.Copy(io.Discard, resp.Body)
		resp.Body.Close()
		if resp.StatusCode == 200 {
			return true
		}
	}
	return false
}

func (e *env) runCut(jr *jobres) []*bres {
	sp := e.sp
	var out []*bres
	lens := map[string]int64{}
	plainLens := map[string]int64{}
	// refLen: length of the complete body of this request (the database does not
	// change during a cut job): the gzip stream as it is, or its decompressed form
	refLen := func(bc bcase, L int64) int64 {
		if bc.Compress {
			return L - 8
		}
		return plainLens[bc.Fmt+"|"+bc.Tables+fmt.Sprint(bc.Vacuum)]
	}
	getL := func(bc bcase) (int64, bool) {
		k := bc.Fmt + "|" + bc.Tables + fmt.Sprint(bc.Vacuum)
		if v, ok := lens[k]; ok {
			return v, v > 0
		}
		// the database is quiescent, but a raft snapshot may still checkpoint the
		// WAL once after the last write: measure until two consecutive
		// measurements agree
		var L int64
		ok := false
		for try := 0; try < 8 && !ok; try++ {
			L1, P1, err1 := e.streamLen(bc)
			L2, P2, err2 := e.streamLen(bc)
			if err1 == nil && err2 == nil && L1 == L2 && P1 == P2 {
				L, ok = L1, true
				plainLens[k] = P1
				break
			}
			e.logf("stream length not stable: %d vs %d (%v %v)", L1, L2, err1, err2)
			time.Sleep(400 * time.Millisecond)
		}
		if !ok {
			lens[k] = 0
			return 0, false
		}
		lens[k] = L
		if L > jr.StreamLen {
			jr.StreamLen = L
		}
		return L, true
	}
	for ci, bc := range sp.Cases {
		L, ok := getL(bc)
		if !ok {
			out = append(out, &bres{Case: bc, Job: sp.Job, Inconcl: "stream length could not be measured"})
			continue
		}
		n := resolvePos(bc.CutPos, L)
		if n < 0 {
			n = 0
		}
		out = append(out, e.oneCut(bc, n, L, refLen(bc, L), filepath.Join(sp.Dir, fmt.Sprintf("c%d", ci))))
	}
	if sp.Dense != nil {
		bc := *sp.Dense
		L, ok := getL(bc)
		if !ok {
			out = append(out, &bres{Case: bc, Job: sp.Job, Inconcl: "stream length could not be measured"})
			return out
		}
		step := int64(max(1, sp.DenseStep))
		lo, hi := L*int64(sp.DenseLo)/1000, L*int64(sp.DenseHi)/1000
		if sp.DenseHi >= 1000 {
			hi = L + 1 // include N = L: nothing is cut
		}
		for n := lo; n < hi; n += step {
			c := bc
			c.CutPos = fmt.Sprintf("abs:%d", n)
			out = append(out, e.oneCut(c, n, L, refLen(c, L), filepath.Join(sp.Dir, "d")))
		}
	}
	return out
}
