// Package c26: the CDC disk queue is ordered, durable and duplicate-suppressing
// (DESIGN §6 C26).
//
// Real code under test: cdc.Queue (cdc/fifo.go) running in a worker child
// ("c26"). The driver sends seeded operations one at a time; every answer of
// the child is the journal record that the operation was acknowledged. At
// seeded positions the driver SIGKILLs the child, either between operations
// or a seeded few microseconds after an operation was sent (in flight), and a
// fresh child reopens the same file.
//
// Oracle: a sequential model (sorted map + persisted highest index + per-open
// cursor). After a kill the in-flight operation may or may not have been
// applied: the model forks into both states and every later answer must be
// explained by at least one surviving state.
package c26

import (
	"encoding/hex"
	"encoding/json"
	"fmt"
	"math"
	"os"
	"path/filepath"
	"sort"
	"strings"
	"sync"
	"time"

	"github.com/rqlite/rqlite/v10/cdc"
	"verif/internal/vf"
)

func init() {
	vf.Register("C26", "fault_enumeration", run)
	vf.RegisterWorker("c26", worker)
}

// ------------------------------------------------------------------ protocol

type op struct {
	Op   string `json:"op"` // open | enq | del | recv | query | reopen | close
	Path string `json:"path,omitempty"`
	Idx  uint64 `json:"idx,omitempty"`
	Data string `json:"data,omitempty"` // hex
	N    int    `json:"n,omitempty"`
}

type ev struct {
	Idx  uint64 `json:"idx"`
	Data string `json:"data"` // hex
}

type snapshot struct {
	Len     int    `json:"len"`
	First   uint64 `json:"first"`
	Highest uint64 `json:"highest"`
	Empty   bool   `json:"empty"`
	HasNext bool   `json:"has_next"`
	Err     string `json:"err,omitempty"`
}

type answer struct {
	Pid      int       `json:"pid"`
	Err      string    `json:"err,omitempty"` // error returned by the queue operation
	Events   []ev      `json:"events,omitempty"`
	Spurious bool      `json:"spurious,omitempty"` // an event arrived although HasNext() was false
	Timeout  bool      `json:"timeout,omitempty"`  // HasNext() true but nothing arrived for 10 s
	Closed   bool      `json:"closed,omitempty"`   // event channel closed
	Snap     *snapshot `json:"snap,omitempty"`     // state after the operation
}

// ------------------------------------------------------------- worker (child)

func snap(q *cdc.Queue) *snapshot {
	s := &snapshot{}
	var err error
	s.Len = q.Len()
	if s.First, err = q.FirstKey(); err != nil {
		s.Err = err.Error()
	}
	if s.Highest, err = q.HighestKey(); err != nil {
		s.Err = err.Error()
	}
	if s.Empty, err = q.Empty(); err != nil {
		s.Err = err.Error()
	}
	s.HasNext = q.HasNext()
	return s
}

func worker(args []string) {
	var q *cdc.Queue
	var path string
	pid := os.Getpid()
	vf.ServeJSON(func(raw json.RawMessage) any {
		var o op
		a := answer{Pid: pid}
		if err := json.Unmarshal(raw, &o); err != nil {
			a.Err = "bad op: " + err.Error()
			return a
		}
		if q == nil && o.Op != "open" {
			a.Err = "harness: queue not open"
			return a
		}
		switch o.Op {
		case "open", "reopen":
			if q != nil {
				q.Close()
				q = nil
			}
			if o.Op == "open" {
				path = o.Path
			}
			var err error
			q, err = cdc.NewQueue(path)
			if err != nil {
				a.Err = err.Error()
				return a
			}
		case "enq":
			d, _ := hex.DecodeString(o.Data)
			if err := q.Enqueue(&cdc.Event{Index: o.Idx, Data: d}); err != nil {
				a.Err = err.Error()
			}
		case "del":
			if err := q.DeleteRange(o.Idx); err != nil {
				a.Err = err.Error()
			}
		case "recv":
			for i := 0; i < o.N; i++ {
				if q.HasNext() {
					select {
					case e, ok := <-q.C:
						if !ok {
							a.Closed = true
						} else {
							a.Events = append(a.Events, ev{e.Index, hex.EncodeToString(e.Data)})
						}
					case <-time.After(10 * time.Second):
						a.Timeout = true
					}
					if a.Closed || a.Timeout {
						break
					}
					continue
				}
				// The queue says nothing is pending: anything arriving now is
				// an emission the model cannot know about.
				select {
				case e, ok := <-q.C:
					if ok {
						a.Spurious = true
						a.Events = append(a.Events, ev{e.Index, hex.EncodeToString(e.Data)})
					}
				case <-time.After(time.Millisecond):
				}
				break
			}
		case "query":
		case "close":
			q.Close()
			q = nil
			return a
		}
		a.Snap = snap(q)
		return a
	})
}

// --------------------------------------------------------------------- model

type model struct {
	items   map[uint64]string
	highest uint64
	cursor  uint64 // next emission = smallest stored index >= cursor
	over    bool   // cursor ran past MaxUint64: nothing more can be emitted in this open
	// set by apply(del) when the bound lies above the highest index ever stored
	// and at or above the cursor: bound+1, else 0. An item stored later in the
	// same open at or below that bound is stored and durable, but the property
	// text does not say whether it is still emitted in this open, i.e. whether
	// the delete moved the cursor behind its bound: both are followed (see
	// variants).
	forkCursor uint64
}

func (m *model) clone() *model {
	n := &model{items: make(map[uint64]string, len(m.items)), highest: m.highest, cursor: m.cursor, over: m.over}
	for k, v := range m.items {
		n.items[k] = v
	}
	return n
}

func (m *model) keys() []uint64 {
	ks := make([]uint64, 0, len(m.items))
	for k := range m.items {
		ks = append(ks, k)
	}
	sort.Slice(ks, func(i, j int) bool { return ks[i] < ks[j] })
	return ks
}

func (m *model) sig() string {
	var sb strings.Builder
	fmt.Fprintf(&sb, "h%d c%d %v|", m.highest, m.cursor, m.over)
	for _, k := range m.keys() {
		fmt.Fprintf(&sb, "%d:%s,", k, m.items[k])
	}
	return sb.String()
}

func (m *model) next() (uint64, bool) {
	if m.over {
		return 0, false
	}
	best, ok := uint64(0), false
	for k := range m.items {
		if k >= m.cursor && (!ok || k < best) {
			best, ok = k, true
		}
	}
	return best, ok
}

func (m *model) snapshot() snapshot {
	s := snapshot{Len: len(m.items), Highest: m.highest, Empty: len(m.items) == 0}
	if ks := m.keys(); len(ks) > 0 {
		s.First = ks[0]
	}
	_, s.HasNext = m.next()
	return s
}

// apply runs the operation on the model and returns the events it expects.
func (m *model) apply(o op) []ev {
	m.forkCursor = 0
	switch o.Op {
	case "open", "reopen":
		m.cursor, m.over = 0, false
	case "enq":
		if o.Idx > m.highest {
			m.items[o.Idx] = o.Data
			m.highest = o.Idx
		}
	case "del":
		// the highest index ever STORED is not touched by a delete, whatever
		// its bound
		if o.Idx > m.highest && o.Idx >= m.cursor && o.Idx < math.MaxUint64 && !m.over {
			m.forkCursor = o.Idx + 1
		}
		for k := range m.items {
			if k <= o.Idx {
				delete(m.items, k)
			}
		}
	case "recv":
		var out []ev
		for i := 0; i < o.N; i++ {
			k, ok := m.next()
			if !ok {
				break
			}
			out = append(out, ev{k, m.items[k]})
			if k == math.MaxUint64 {
				m.over = true
			} else {
				m.cursor = k + 1
			}
		}
		return out
	}
	return nil
}

// variants returns the model states that may follow the operation just applied
// to m: m itself and, after a delete-range with a bound above the highest index
// ever stored, the state in which the cursor of this open lies behind that
// bound (items stored later at or below the bound are stored, survive, and are
// emitted in the next open). The states differ only in the cursor and merge at
// the next open.
func variants(m *model) []*model {
	if m.forkCursor == 0 {
		return []*model{m}
	}
	n := m.clone()
	n.cursor = m.forkCursor
	m.forkCursor = 0
	return []*model{m, n}
}

// explain compares an answer with what the model (already advanced by the op)
// expects; "" means the answer is explained.
func explain(m *model, o op, want []ev, a *answer) (key, what string) {
	if a.Err != "" {
		return o.Op + ":error", fmt.Sprintf("%s returned error %q", o.Op, a.Err)
	}
	if o.Op == "recv" {
		if a.Closed {
			return "emit:channel-closed", "event channel closed while the queue is open"
		}
		for i, e := range a.Events {
			if i >= len(want) {
				k := "emit:more-than-stored"
				for j := 0; j < i; j++ {
					if a.Events[j].Idx >= e.Idx {
						k = "emit:duplicate-or-out-of-order"
					}
				}
				if a.Spurious {
					k += ":while-has-next-false"
				}
				return k, fmt.Sprintf("event %d (index %d) emitted, model expects only %d events %v", i+1, e.Idx, len(want), idxs(want))
			}
			if e.Idx != want[i].Idx {
				k := "emit:wrong-item"
				if i > 0 && e.Idx <= a.Events[i-1].Idx {
					k = "emit:duplicate-or-out-of-order"
				} else if _, stored := m.items[e.Idx]; !stored {
					k = "emit:deleted-or-unknown-item"
				} else if e.Idx > want[i].Idx {
					k = "emit:skipped-item"
				} else {
					k = "emit:re-emitted-item"
				}
				return k, fmt.Sprintf("event %d has index %d, model expects %d (emitted %v, expected %v)", i+1, e.Idx, want[i].Idx, idxs(a.Events), idxs(want))
			}
			if e.Data != want[i].Data {
				return "emit:data", fmt.Sprintf("event index %d carries data %s, enqueued %s", e.Idx, short(e.Data), short(want[i].Data))
			}
		}
		if len(a.Events) < len(want) {
			return "emit:missing", fmt.Sprintf("%d events emitted %v, then HasNext()=false; model still holds undelivered %v", len(a.Events), idxs(a.Events), idxs(want[len(a.Events):]))
		}
	}
	if a.Snap == nil {
		return "harness:no-snapshot", "no state snapshot in answer"
	}
	if a.Snap.Err != "" {
		return "query:error", a.Snap.Err
	}
	w := m.snapshot()
	g := a.Snap
	switch {
	case g.Highest != w.Highest:
		k := "highest-key:wrong"
		if g.Highest < w.Highest {
			k = "highest-key:regressed-or-not-persisted"
		}
		return k, fmt.Sprintf("HighestKey()=%d, model %d", g.Highest, w.Highest)
	case g.Len != w.Len:
		k := "len:wrong"
		switch {
		case o.Op == "enq" && g.Len > w.Len:
			k = "enqueue:stored-at-or-below-highest"
		case o.Op == "enq":
			k = "enqueue:acknowledged-not-stored"
		case o.Op == "del" && g.Len > w.Len:
			k = "delete-range:removed-too-few"
		case o.Op == "del":
			k = "delete-range:removed-too-many"
		case o.Op == "open" || o.Op == "reopen":
			k = "reopen:items-lost-or-resurrected"
		}
		return k, fmt.Sprintf("Len()=%d, model %d (stored %v)", g.Len, w.Len, m.keys())
	case g.First != w.First:
		return "first-key:wrong", fmt.Sprintf("FirstKey()=%d, model %d (stored %v)", g.First, w.First, m.keys())
	case g.Empty != w.Empty:
		return "empty:wrong", fmt.Sprintf("Empty()=%v, model %v", g.Empty, w.Empty)
	case g.HasNext != w.HasNext:
		k := "has-next:true-but-nothing-undelivered"
		if w.HasNext {
			k = "emit:missing"
		}
		return k, fmt.Sprintf("HasNext()=%v after %s, model %v (stored %v, cursor %d)", g.HasNext, o.Op, w.HasNext, m.keys(), m.cursor)
	}
	return "", ""
}

func idxs(es []ev) []uint64 {
	out := make([]uint64, len(es))
	for i, e := range es {
		out[i] = e.Idx
	}
	return out
}

func short(s string) string {
	if len(s) > 24 {
		return s[:24] + "…"
	}
	return s
}

// -------------------------------------------------------------------- driver

type seqCase struct {
	Seq   int      `json:"sequence"`
	Kills int      `json:"kills"`
	Ops   []string `json:"ops"` // journal as seen by the driver
}

type runner struct {
	c      *vf.Ctx
	tmp    string
	id     int
	p      *vf.Proc
	pids   map[int]bool
	spawns int
	wlat   time.Duration // running average latency of acknowledged write operations
}

func (r *runner) start() error {
	p, err := vf.StartWorker(false, "c26", nil, nil, filepath.Join(r.tmp, fmt.Sprintf("worker-%d.log", r.id)))
	if err != nil {
		return err
	}
	r.p = p
	r.spawns++
	return nil
}

func (r *runner) stop() {
	if r.p != nil {
		r.p.Kill()
		r.p = nil
	}
}

const callTimeout = 60 * time.Second

func describe(o op) string {
	switch o.Op {
	case "enq":
		return fmt.Sprintf("enq(%d,%dB)", o.Idx, len(o.Data)/2)
	case "del":
		return fmt.Sprintf("del(%d)", o.Idx)
	case "recv":
		return fmt.Sprintf("recv(%d)", o.N)
	}
	return o.Op
}

// runSequence executes one seeded sequence. kills = number of kill points.
func (r *runner) runSequence(seq, nops, kills int) {
	c := r.c
	rng := c.Rand(uint64(seq) + 10)
	path := filepath.Join(r.tmp, fmt.Sprintf("q-%d-%d.db", r.id, seq))
	defer os.Remove(path)
	sc := seqCase{Seq: seq, Kills: kills}
	cands := []*model{{items: map[uint64]string{}}}
	var stats struct{ accepted, ignored, deleted, emitted, reopens, kills int }
	// an acknowledged delete-range bound lies above the highest stored index
	// and nothing has been stored since
	pendingAhead := false

	// seeded kill positions: op number -> mode (1 = after the answer, 2 = in flight)
	killAt := map[int]int{}
	for len(killAt) < kills && len(killAt) < nops-2 {
		mode := 2 // in-flight kills are the interesting ones
		if rng.IntN(3) == 0 {
			mode = 1
		}
		killAt[1+rng.IntN(nops-1)] = mode
	}

	journal := func(s string) { sc.Ops = append(sc.Ops, s) }
	abort := func(why string) {
		c.Eval(1)
		c.Inconclusive(why)
		r.stop()
	}
	violation := func(key, what string) {
		c.Eval(1)
		if len(cands) > 1 {
			what += fmt.Sprintf(" [%d model states alive]", len(cands))
		}
		c.Violation(key, fmt.Sprintf("%s; sequence %d: %s", what, seq, strings.Join(tail(sc.Ops, 14), " ")), sc)
		r.stop()
	}
	// judge: keep the candidate states that explain the answer.
	judge := func(o op, a *answer, pre []*model) (ok bool) {
		var keep []*model
		var k1, w1 string
		seen := map[string]bool{}
		for _, m := range pre {
			want := m.apply(o)
			for _, v := range variants(m) {
				key, what := explain(v, o, want, a)
				if key == "" {
					if s := v.sig(); !seen[s] {
						seen[s] = true
						keep = append(keep, v)
					}
				} else if k1 == "" {
					k1, w1 = key, what
				}
			}
		}
		if len(keep) == 0 {
			if stats.kills > 0 {
				k1 += ":after-kill"
			}
			violation(k1, w1)
			return false
		}
		cands = keep
		return true
	}
	call := func(o op) (*answer, error) {
		if r.p == nil {
			if err := r.start(); err != nil {
				return nil, err
			}
		}
		var a answer
		err := r.p.Call(o, &a, callTimeout)
		if err == nil {
			r.pids[a.Pid] = true
		}
		return &a, err
	}
	openFresh := func(first bool) bool {
		o := op{Op: "open", Path: path}
		a, err := call(o)
		if err != nil {
			abort("worker did not answer open: " + err.Error())
			return false
		}
		if first {
			journal("open")
		} else {
			journal("reopen-by-fresh-child")
		}
		return judge(o, a, cands)
	}
	if !openFresh(true) {
		return
	}

	minHighest := func() uint64 {
		h := cands[0].highest
		for _, m := range cands {
			h = min(h, m.highest)
		}
		return h
	}
	maxHighest := func() uint64 {
		h := cands[0].highest
		for _, m := range cands {
			h = max(h, m.highest)
		}
		return h
	}
	genOp := func(i int) op {
		m := cands[0]
		switch k := rng.IntN(100); {
		case k < 42:
			// index from a small window around the highest: collisions and
			// regressions are common; never 0 (HighestKey's "none")
			var idx uint64
			switch d := rng.IntN(10); {
			case d < 5:
				idx = m.highest + 1 + uint64(rng.IntN(3))
			case d < 8:
				back := uint64(rng.IntN(5))
				if back >= m.highest {
					back = 0
				}
				idx = m.highest - back
			case d < 9:
				idx = m.highest + 1 + uint64(rng.IntN(1000))
			default:
				idx = 1 + uint64(rng.IntN(int(min(m.highest+2, 50))))
			}
			if idx == 0 {
				idx = 1
			}
			d := make([]byte, []int{0, 1, 8, 33, 200}[rng.IntN(5)])
			for j := range d {
				d[j] = byte(rng.Uint32())
			}
			return op{Op: "enq", Idx: idx, Data: hex.EncodeToString(d)}
		case k < 58:
			h := minHighest()
			var idx uint64
			ks := m.keys()
			d := rng.IntN(8)
			if d >= 6 {
				// a bound AHEAD of the highest index ever stored (in every
				// state still alive): a consumer told a high watermark it has
				// not reached itself. Close enough that later enqueues
				// (window +1..+3) land at or below the bound.
				return op{Op: "del", Idx: maxHighest() + 1 + uint64(rng.IntN(6))}
			}
			switch {
			case d < 3 && len(ks) > 0:
				idx = ks[rng.IntN(len(ks))]
				if rng.IntN(4) == 0 && idx > 0 {
					idx--
				}
			case d < 4:
				idx = h
			case d < 5 && m.cursor > 0:
				idx = m.cursor - 1
			default:
				idx = uint64(rng.IntN(int(min(h, 60)) + 1))
			}
			return op{Op: "del", Idx: min(idx, h)}
		case k < 84:
			return op{Op: "recv", N: []int{0, 1, 1, 2, 3, 50}[rng.IntN(6)]}
		case k < 92:
			return op{Op: "query"}
		default:
			return op{Op: "reopen"}
		}
	}

	for i := 1; i <= nops; i++ {
		o := genOp(i)
		mode := killAt[i]
		pre := make([]*model, len(cands))
		for j, m := range cands {
			pre[j] = m.clone()
		}
		accepts := o.Op == "enq" && o.Idx > cands[0].highest
		lenBefore := len(cands[0].items)
		aheadDel := o.Op == "del" && o.Idx > cands[0].highest
		track := func() {
			switch o.Op {
			case "enq":
				if accepts {
					stats.accepted++
					pendingAhead = false
					if cands[0].cursor > o.Idx {
						c.Count("enqueues_stored_at_or_below_earlier_ahead_delete_bound_not_emitted_in_same_open", 1)
					}
				} else {
					stats.ignored++
				}
			case "del":
				stats.deleted += lenBefore - len(cands[0].items)
				if aheadDel {
					pendingAhead = true
					c.Count("delete_range_ahead_of_highest_stored", 1)
				}
			case "reopen":
				stats.reopens++
				if pendingAhead {
					c.Count("restarts_while_last_delete_bound_above_highest_stored", 1)
				}
			}
		}
		if mode != 2 {
			t0 := time.Now()
			a, err := call(o)
			if err == nil && (accepts || o.Op == "del") {
				// only steers where later in-flight kills land, never a verdict
				if d := time.Since(t0); r.wlat == 0 {
					r.wlat = d
				} else {
					r.wlat = (3*r.wlat + d) / 4
				}
			}
			if err != nil {
				abort(fmt.Sprintf("worker did not answer %s: %v", describe(o), err))
				return
			}
			if a.Timeout {
				abort("HasNext()=true but no event within 10 s")
				return
			}
			journal(describe(o))
			stats.emitted += len(a.Events)
			if !judge(o, a, pre) {
				return
			}
			track()
			c.Count("ops_acknowledged", 1)
			if mode == 1 {
				r.p.Kill()
				r.p = nil
				stats.kills++
				c.Count("kills_between_operations", 1)
				journal("KILL")
				if pendingAhead {
					c.Count("restarts_while_last_delete_bound_above_highest_stored", 1)
				}
				if !openFresh(false) {
					return
				}
			}
			continue
		}
		// in flight: send, wait a seeded moment, SIGKILL
		if r.p == nil {
			if err := r.start(); err != nil {
				abort("worker start: " + err.Error())
				return
			}
		}
		base := r.wlat
		if base == 0 {
			base = 2 * time.Millisecond
		}
		delay := time.Duration(float64(min(base, 200*time.Millisecond)) * []float64{0, 0.1, 0.25, 0.4, 0.55, 0.7, 0.85, 1.0, 1.3}[rng.IntN(9)])
		var a answer
		done := make(chan error, 1)
		p := r.p
		go func() { done <- p.Call(o, &a, callTimeout) }()
		time.Sleep(delay)
		p.Kill()
		err := <-done
		r.p = nil
		stats.kills++
		if err == nil {
			// the acknowledgement reached us before the child died
			journal(describe(o))
			journal("KILL")
			c.Count("kills_after_acknowledgement_in_pipe", 1)
			c.Count("ops_acknowledged", 1)
			stats.emitted += len(a.Events)
			if !judge(o, &a, pre) {
				return
			}
			track()
		} else {
			journal(describe(o) + "?KILL")
			c.Count("kills_in_flight", 1)
			// fork: not applied (pre) or applied (post). Events possibly
			// consumed by an in-flight recv die with the child's cursor.
			var forked []*model
			seen := map[string]bool{}
			for _, m := range pre {
				n := m.clone()
				n.apply(o)
				for _, x := range []*model{m, n} {
					if s := x.sig(); !seen[s] {
						seen[s] = true
						forked = append(forked, x)
					}
				}
			}
			cands = forked
		}
		before := len(cands)
		if pendingAhead {
			c.Count("restarts_while_last_delete_bound_above_highest_stored", 1)
		}
		if !openFresh(false) {
			return
		}
		if err != nil && before > 1 {
			if len(cands) == 1 {
				if cands[0].sig() == func() string { m := pre[0].clone(); m.apply(op{Op: "open"}); return m.sig() }() {
					c.Count("in_flight_op_found_not_applied", 1)
				} else {
					c.Count("in_flight_op_found_applied", 1)
				}
			} else {
				c.Count("in_flight_op_unresolved_after_open", 1)
			}
		}
	}
	// final: drain everything in a fresh open and compare the full content
	for _, o := range []op{{Op: "reopen"}, {Op: "recv", N: 100000}} {
		pre := make([]*model, len(cands))
		for j, m := range cands {
			pre[j] = m.clone()
		}
		a, err := call(o)
		if err != nil {
			abort("worker did not answer final " + o.Op)
			return
		}
		if a.Timeout {
			abort("HasNext()=true but no event within 10 s")
			return
		}
		journal("final-" + describe(o))
		stats.emitted += len(a.Events)
		if !judge(o, a, pre) {
			return
		}
	}
	if a, err := call(op{Op: "close"}); err != nil || a.Err != "" {
		r.stop()
	}
	c.Eval(1)
	c.Held(1)
	c.Count("events_emitted_and_checked", int64(stats.emitted))
	c.Count("enqueues_accepted", int64(stats.accepted))
	c.Count("enqueues_ignored_at_or_below_highest", int64(stats.ignored))
	c.Count("items_deleted", int64(stats.deleted))
	c.Count("reopens_in_process", int64(stats.reopens))
	if stats.accepted > 0 && stats.ignored > 0 && stats.deleted > 0 && stats.emitted > 0 && stats.reopens+stats.kills > 0 {
		c.Nontrivial(strings.Join(sc.Ops, " "))
	}
	if kills > 0 && stats.kills > 0 && seq%5 == 0 {
		if len(sc.Ops) > 40 {
			sc.Ops = sc.Ops[:40]
		}
		c.Sample(sc)
	}
}

func tail(s []string, n int) []string {
	if len(s) > n {
		return append([]string{"…"}, s[len(s)-n:]...)
	}
	return s
}

// probes: two situations left out of the generated sequences because the
// property text does not decide them; what the queue does is recorded only.
func probes(c *vf.Ctx, tmp string) {
	r := &runner{c: c, tmp: tmp, id: 99, pids: map[int]bool{}}
	defer r.stop()
	if err := r.start(); err != nil {
		return
	}
	do := func(o op) *answer {
		var a answer
		if r.p.Call(o, &a, callTimeout) != nil {
			return &answer{Err: "no answer"}
		}
		return &a
	}
	// (1) index 0 on a queue that has never stored anything
	p1 := filepath.Join(tmp, "probe0.db")
	do(op{Op: "open", Path: p1})
	a := do(op{Op: "enq", Idx: 0, Data: "00"})
	if a.Err == "" && a.Snap != nil && a.Snap.Len == 0 {
		c.Extra("observation_enqueue_index_0_on_fresh_queue", "acknowledged (nil error) but not stored: index 0 is treated as <= HighestKey()==0")
	} else if a.Snap != nil {
		c.Extra("observation_enqueue_index_0_on_fresh_queue", fmt.Sprintf("err=%q len=%d", a.Err, a.Snap.Len))
	}
	// (2) DeleteRange beyond the highest stored index, then an enqueue below that bound
	p2 := filepath.Join(tmp, "probe1.db")
	do(op{Op: "open", Path: p2})
	do(op{Op: "enq", Idx: 5, Data: "05"})
	do(op{Op: "recv", N: 1})
	do(op{Op: "del", Idx: 10})
	a = do(op{Op: "enq", Idx: 7, Data: "07"})
	b := do(op{Op: "recv", N: 1})
	d := do(op{Op: "reopen"})
	e := do(op{Op: "recv", N: 1})
	if a.Snap != nil && d.Snap != nil {
		c.Extra("observation_enqueue_below_earlier_delete_range_bound", fmt.Sprintf("after enq(5) recv del(10) enq(7): Len=%d, emitted in same open=%v, emitted after reopen=%v", a.Snap.Len, idxs(b.Events), idxs(e.Events)))
	}
	// (3) the largest possible index
	p3 := filepath.Join(tmp, "probe2.db")
	do(op{Op: "open", Path: p3})
	do(op{Op: "enq", Idx: 1, Data: "01"})
	do(op{Op: "enq", Idx: math.MaxUint64, Data: "ff"})
	f := do(op{Op: "recv", N: 4})
	c.Extra("observation_index_max_uint64", fmt.Sprintf("after enq(1) enq(2^64-1): recv(4) emitted %v", idxs(f.Events)))
	do(op{Op: "close"})
	os.Remove(p1)
	os.Remove(p2)
	os.Remove(p3)
}

func run(c *vf.Ctx) {
	c.Rule("seeded operation sequences on the real cdc.Queue in a child process: enqueue (index from a window of -4..+3 around the highest stored index, occasionally far ahead or anywhere below; payload 0..200 bytes, different for every attempt so an ignored re-enqueue cannot hide), delete-range (three quarters at stored keys, key-1, the cursor, the highest or anywhere below; one quarter with a bound 1..6 AHEAD of the highest index ever stored, so that later enqueues land at or below an earlier delete bound and restarts happen while the last delete bound is above everything stored), receive 0..50 events, query (Len/FirstKey/HighestKey/Empty/HasNext, also returned after every operation), close+reopen in process; kill sequences add 1..3 SIGKILLs at seeded operation numbers, two thirds of them a seeded fraction (0..1.3) of the measured write latency after the operation was sent, followed by a fresh child on the same file; every sequence ends with reopen + full drain. non-trivial = sequence with an accepted and an ignored enqueue, a delete that removed items, emitted events and a reopen or kill; distinct by the journal")
	c.Assume("sequential model written from the property text: sorted map, highest index ever stored (persisted; moved only by a stored enqueue, never by a delete-range whatever its bound), per-open cursor; an acknowledged operation is applied, the one operation in flight at a kill is applied or not (both states are followed)")
	c.Assume("indexes are in 1..2^64-2 (0 is what HighestKey/FirstKey return for 'none'; Raft indexes never get near 2^64); what the queue does outside these bounds is recorded under coverage.observation_* and not judged")
	c.Assume("an item stored at or below the bound of an earlier delete-range of the same open (possible only when that bound was ahead of the highest stored index) must be stored, counted, durable and emitted after the next open; whether it is still emitted in the same open is not decided by the property text: after every delete-range with a bound above the highest stored index the model follows both states (cursor unchanged / cursor behind the bound) and later HasNext()/receive answers select one")
	c.Assume("SIGKILL of the process (no power loss): data handed to the kernel survives")

	tmp := vf.TempDir("c26")
	defer os.RemoveAll(tmp)

	nPlain := c.N(300, 3000)
	nKill := c.N(60, 900)
	type job struct{ seq, nops, kills int }
	jobs := make(chan job, 16)
	var wg sync.WaitGroup
	var mu sync.Mutex
	allPids := map[int]bool{}
	spawns := 0
	for w := 0; w < 4; w++ {
		wg.Add(1)
		go func(w int) {
			defer wg.Done()
			r := &runner{c: c, tmp: tmp, id: w, pids: map[int]bool{}}
			defer func() {
				r.stop()
				mu.Lock()
				for p := range r.pids {
					allPids[p] = true
				}
				spawns += r.spawns
				mu.Unlock()
			}()
			for j := range jobs {
				r.runSequence(j.seq, j.nops, j.kills)
			}
		}(w)
	}
	rng := c.Rand(1)
	total := nPlain + nKill
	for s := 0; s < total; s++ {
		nops := 30
		if !c.Quick() {
			nops = 20 + rng.IntN(41)
		}
		kills := 0
		if s%(total/nKill) == 0 {
			kills = 1 + rng.IntN(3)
		}
		jobs <- job{s, nops, kills}
		if s%1000 == 999 {
			c.Logf("sequences queued %d/%d", s+1, total)
		}
	}
	close(jobs)
	wg.Wait()
	c.Count("child_processes_spawned", int64(spawns))
	c.Count("distinct_child_pids_answering", int64(len(allPids)))
	probes(c, tmp)
	c.Require(int64(c.N(250, 3000)), c.N(100, 1500))
}
