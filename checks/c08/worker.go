package c08

import (
	"bytes"
	"encoding/json"
	"fmt"
	"log"
	"net"
	"os"
	"path/filepath"
	"time"

	"github.com/rqlite/rqlite/v10/snapshot"
	"github.com/rqlite/rqlite/v10/store"
	"verif/checks/c07"
	"verif/internal/vf"
)

func init() { vf.RegisterWorker("c08", worker) }

// UpResult is the answer of the upgrade / final children.
type UpResult struct {
	OK    bool   `json:"ok"`
	Stage string `json:"stage,omitempty"` // upgrade7to8 | upgrade8to10 | store stage
	Err   string `json:"err,omitempty"`
	// UpgradeHits is the number of hook hits made by the two upgrade calls
	// (only known when the child was traced).
	UpgradeHits int          `json:"upgrade_hits"`
	Res         c07.Resolved `json:"resolved"`
}

func emit(v any) {
	b, _ := json.Marshal(v)
	fmt.Println(string(b))
}

// upgrade runs the two upgrade steps exactly as store.Store.Open does
// (store/store.go: "Upgrade any preexisting snapshots").
func upgrade(raftDir string) (stage string, err error) {
	logger := log.New(os.Stderr, "[store] ", log.LstdFlags)
	old7 := filepath.Join(raftDir, "snapshots")
	old8 := filepath.Join(raftDir, "rsnapshots")
	newDir := filepath.Join(raftDir, "wsnapshots")
	if err := snapshot.Upgrade7To8(old7, old8, logger); err != nil {
		return "upgrade7to8", fmt.Errorf("failed to upgrade v7 snapshots: %s", err)
	}
	if err := snapshot.Upgrade8To10(old8, newDir, logger); err != nil {
		return "upgrade8to10", fmt.Errorf("failed to upgrade v8 snapshots: %s", err)
	}
	return "", nil
}

func traceLines() int {
	p := os.Getenv("VERIF_TRACE")
	if p == "" {
		return 0
	}
	b, err := os.ReadFile(p)
	if err != nil {
		return 0
	}
	return bytes.Count(b, []byte("\n"))
}

type layer struct{ ln net.Listener }

func (l *layer) Dial(addr string, timeout time.Duration) (net.Conn, error) {
	return net.DialTimeout("tcp", addr, timeout)
}
func (l *layer) Accept() (net.Conn, error) { return l.ln.Accept() }
func (l *layer) Close() error              { return l.ln.Close() }
func (l *layer) Addr() net.Addr            { return l.ln.Addr() }

func worker(args []string) {
	if len(args) < 2 {
		fmt.Fprintln(os.Stderr, "usage: c08 gen|upgrade|final|storeopen ...")
		os.Exit(2)
	}
	switch args[0] {
	case "gen": // gen <input.json> <outdir>
		var in Input
		b, err := os.ReadFile(args[1])
		if err == nil {
			err = json.Unmarshal(b, &in)
		}
		if err != nil {
			emit(GenResult{Err: err.Error()})
			return
		}
		emit(Generate(in, args[2]))
	case "upgrade": // upgrade <raftdir>
		stage, err := upgrade(args[1])
		r := UpResult{OK: err == nil, Stage: stage, UpgradeHits: traceLines()}
		if err != nil {
			r.Err = err.Error()
		}
		emit(r)
	case "final": // final <raftdir> <out.db>: a node start up to a usable snapshot store
		stage, err := upgrade(args[1])
		r := UpResult{Stage: stage, UpgradeHits: traceLines()}
		if err != nil {
			r.Err = err.Error()
			emit(r)
			return
		}
		r.Res = c07.ResolveNewest(filepath.Join(args[1], "wsnapshots"), args[2])
		r.OK = r.Res.OK
		if !r.OK {
			r.Stage, r.Err = "store:"+r.Res.Stage, r.Res.Err
		}
		emit(r)
	case "storeopen": // storeopen <raftdir>: the real store.Store.Open on the directory
		ln, err := net.Listen("tcp", "127.0.0.1:0")
		if err != nil {
			emit(UpResult{Stage: "listen", Err: err.Error()})
			return
		}
		s := store.New(&store.Config{DBConf: store.NewDBConfig(), Dir: args[1], ID: "node1"}, &layer{ln})
		if err := s.Open(); err != nil {
			emit(UpResult{Stage: "store.Open", Err: err.Error()})
			return
		}
		r := UpResult{OK: true}
		if err := s.Close(true); err != nil {
			r.OK, r.Stage, r.Err = false, "store.Close", err.Error()
		}
		emit(r)
	default:
		fmt.Fprintln(os.Stderr, "unknown c08 worker command", args[0])
		os.Exit(2)
	}
}
