// Package c08: upgrading old snapshot formats is crash-safe (DESIGN §6 C08).
//
// Crash-point enumeration of the v7->v8 and v8->v10 snapshot upgrades. A child
// calls snapshot.Upgrade7To8 and snapshot.Upgrade8To10 exactly as
// store.Store.Open does on a raft directory holding old-format snapshots
// (checked-in fixtures and generated ones). A traced run tells how many hook
// hits the upgrade makes; for every hit n a child on a fresh copy exits there
// (VERIF_CRASH_N=n, process-crash model). The next start is the same call
// again; it is crashed again at each of its own hits down to the tier's depth.
// For every crashed state a final child performs a start (both upgrades, then
// snapshot.NewStore, List, Open, Restore) and the driver compares index, term
// and logical dump with the newest original snapshot.
package c08

import (
	"crypto/sha256"
	"encoding/hex"
	"encoding/json"
	"fmt"
	"os"
	"path/filepath"
	"sort"
	"strings"
	"sync"
	"time"

	"verif/checks/c07"
	"verif/internal/sqlref"
	"verif/internal/vf"
)

func init() { vf.Register("C08", "fault_enumeration", run) }

const childTimeout = 90 * time.Second

type inputRun struct {
	in       Input
	dir      string
	pristine string // <dir>/pristine/raft
	gen      GenResult
	truth    *sqlref.Dump
	hits     int
	depth    int
	mu       sync.Mutex
	seen     map[string]*stateInfo
}

// Case identifies one enumerated case: the hook-hit numbers at which the
// successive starts were crashed.
type Case struct {
	Input  Input    `json:"input"`
	Path   []int    `json:"crash_path"`
	Points []string `json:"points,omitempty"`
}

type driver struct {
	c        *vf.Ctx
	mu       sync.Mutex
	pts      map[string]int64
	storeRun bool
	replay   bool
	bin      string // private copy of the running binary, used for all children
}

func (d *driver) child(logPath string, env []string, args ...string) ([]byte, int, bool) {
	if f, err := os.OpenFile(logPath, os.O_CREATE|os.O_WRONLY|os.O_APPEND, 0644); err == nil {
		fmt.Fprintf(f, "--- child: c08 %s env=%v\n", strings.Join(args, " "), env)
		f.Close()
	}
	env = append([]string{"GOMAXPROCS=2"}, env...)
	return vf.RunOnce(d.bin, append([]string{"worker", "c08"}, args...), env, logPath, childTimeout)
}

func parseJSON[T any](out []byte) (T, bool) {
	var v T
	lines := strings.Split(strings.TrimSpace(string(out)), "\n")
	if len(lines) == 0 || lines[len(lines)-1] == "" {
		return v, false
	}
	if err := json.Unmarshal([]byte(lines[len(lines)-1]), &v); err != nil {
		return v, false
	}
	return v, true
}

func exists(p string) bool { _, err := os.Stat(p); return err == nil }

// stateClass names which upgrade artefacts a raft directory holds.
func stateClass(raft string) string {
	var p []string
	for _, n := range []string{"snapshots", "rsnapshots.tmp", "rsnapshots", "UPGRADE_8_10_PLAN.tmp", "UPGRADE_8_10_PLAN", "wsnapshots.tmp", "wsnapshots"} {
		if exists(filepath.Join(raft, n)) {
			p = append(p, n)
		}
	}
	if len(p) == 0 {
		return "empty"
	}
	return strings.Join(p, "+")
}

func readPlanOps(raft string) []string {
	b, err := os.ReadFile(filepath.Join(raft, "UPGRADE_8_10_PLAN"))
	if err != nil {
		return nil
	}
	var p struct {
		Ops []struct {
			Type string `json:"type"`
		} `json:"ops"`
	}
	if json.Unmarshal(b, &p) != nil {
		return nil
	}
	var out []string
	for _, o := range p.Ops {
		out = append(out, o.Type)
	}
	return out
}

func label(crashed string, ops []string) string {
	name, hit, _ := strings.Cut(crashed, "#")
	if name == "plan.op.before" || name == "plan.op.after" {
		var k int
		fmt.Sscan(hit, &k)
		if k >= 1 && k <= len(ops) {
			return fmt.Sprintf("%s[%d:%s]", name, k, ops[k-1])
		}
	}
	return name
}

// judge performs a node start on raft (final child) and evaluates the oracle.
// It returns the number of hook hits the upgrade part made.
func (d *driver) judge(ir *inputRun, raft, scratch, logp string) (key, what string, hits int) {
	before := stateClass(raft)
	hadPlan, hadNew := exists(filepath.Join(raft, "UPGRADE_8_10_PLAN")), exists(filepath.Join(raft, "wsnapshots"))
	hadOld8, hadOld7 := exists(filepath.Join(raft, "rsnapshots")), exists(filepath.Join(raft, "snapshots"))
	outDB := filepath.Join(scratch, "out.db")
	os.Remove(outDB)
	tr := filepath.Join(scratch, "trace-final")
	os.Remove(tr)
	out, code, ok := d.child(logp, []string{"VERIF_TRACE=" + tr}, "final", raft, outDB)
	if !ok {
		return "inconclusive", "final start timed out", 0
	}
	res, jok := parseJSON[UpResult](out)
	if code == 2 && strings.Contains(c07.Tail(logp, 300), "unknown worker") {
		return "inconclusive", "child binary has no c08 worker", 0
	}
	if code != 0 || !jok {
		return "restart-dies:state=" + before, fmt.Sprintf("the starting process exited with code %d (state before: %s): %s", code, before, c07.Tail(logp, 500)), 0
	}
	hits = res.UpgradeHits
	if !res.OK {
		if strings.HasPrefix(res.Stage, "upgrade") {
			cls := "state=" + before
			if res.Stage == "upgrade8to10" && hadPlan && hadNew && !hadOld7 {
				// the plan's rename step had taken effect before the crash
				cls = "resume-after-rename:old-dir-removed"
				if hadOld8 {
					cls = "resume-after-rename:old-dir-present"
				}
			}
			return "restart-fails:" + res.Stage + ":" + cls, fmt.Sprintf("start fails in %s with directory state {%s}: %s", res.Stage, before, res.Err), hits
		}
		return "after-upgrade:" + res.Stage + "-fails", fmt.Sprintf("upgrade returned nil but %s failed (state before: %s): %s", res.Stage, before, res.Err), hits
	}
	r := res.Res
	if r.Index != ir.gen.Index || r.Term != ir.gen.Term {
		return "index-term-changed", fmt.Sprintf("upgraded snapshot is (index %d, term %d), newest original was (%d, %d)", r.Index, r.Term, ir.gen.Index, ir.gen.Term), hits
	}
	dump, err := sqlref.DumpFile(outDB)
	if err != nil {
		return "restored-db-unreadable", fmt.Sprintf("restored database cannot be dumped: %v", err), hits
	}
	if dump.Hash() != ir.truth.Hash() {
		return "restored-content-changed", "database restored from the upgraded snapshot differs from the newest original: " + sqlref.Diff(ir.truth, dump), hits
	}
	if after := stateClass(raft); after != "wsnapshots" {
		return "upgrade-incomplete", fmt.Sprintf("after a successful start the raft directory still holds {%s}", after), hits
	}
	if lo := c07.Leftovers(filepath.Join(raft, "wsnapshots")); len(lo) > 0 {
		return "upgrade-incomplete", fmt.Sprintf("new snapshot store holds leftovers %v", lo), hits
	}
	return "", "", hits
}

func (d *driver) countPoint(p string) {
	d.mu.Lock()
	d.pts[p]++
	d.mu.Unlock()
}

func (d *driver) prepare(ir *inputRun) error {
	c := d.c
	os.MkdirAll(ir.dir, 0755)
	logp := filepath.Join(ir.dir, "gen.log")
	ij, _ := json.Marshal(ir.in)
	ip := filepath.Join(ir.dir, "input.json")
	os.WriteFile(ip, ij, 0644)
	pdir := filepath.Join(ir.dir, "pristine")
	out, code, ok := d.child(logp, nil, "gen", ip, pdir)
	g, jok := parseJSON[GenResult](out)
	if !ok || code != 0 || !jok || !g.OK {
		return fmt.Errorf("generator failed (code %d): %s %s", code, g.Err, c07.Tail(logp, 600))
	}
	ir.gen = g
	ir.pristine = filepath.Join(pdir, "raft")
	truth, err := sqlref.DumpFile(filepath.Join(pdir, "truth.db"))
	if err != nil {
		return fmt.Errorf("truth dump: %w", err)
	}
	ir.truth = truth

	// Uninterrupted start: the recording run.
	rdir := filepath.Join(ir.dir, "record")
	W := filepath.Join(rdir, "raft")
	if err := c07.ResetDir(ir.pristine, W, sqlref.CopyTree); err != nil {
		return err
	}
	key, what, hits := d.judge(ir, W, rdir, logp)
	c.Eval(1)
	ir.hits = hits
	if key == "inconclusive" {
		return fmt.Errorf("recording run: %s", what)
	}
	if key != "" {
		c.Violation("no-crash:"+key, fmt.Sprintf("input %s, uninterrupted upgrade: %s", ir.in.Key(), what), Case{Input: ir.in})
		return fmt.Errorf("recording run failed: %s", what)
	}
	c.Held(1)
	if d.storeRun {
		d.storeOpen(ir, W, logp, Case{Input: ir.in})
	}
	os.RemoveAll(rdir)
	return nil
}

// storeOpen starts the real store.Store on an upgraded (or half-upgraded)
// raft directory and compares the database raft restored from the snapshot.
func (d *driver) storeOpen(ir *inputRun, raft, logp string, cs Case) {
	c := d.c
	out, code, ok := d.child(logp, nil, "storeopen", raft)
	c.Count("store_open_runs", 1)
	if !ok {
		c.Inconclusive("store.Open child timed out")
		return
	}
	res, jok := parseJSON[UpResult](out)
	if code != 0 || !jok {
		c.Violation("store-open:dies", fmt.Sprintf("input %s path %v: process running store.Store.Open exited with code %d: %s", ir.in.Key(), cs.Path, code, c07.Tail(logp, 500)), cs)
		return
	}
	if !res.OK {
		c.Violation("store-open:"+res.Stage+"-fails", fmt.Sprintf("input %s path %v: %s: %s", ir.in.Key(), cs.Path, res.Stage, res.Err), cs)
		return
	}
	dump, err := sqlref.DumpFile(filepath.Join(raft, "db.sqlite"))
	if err != nil {
		c.Violation("store-open:db-unreadable", fmt.Sprintf("input %s path %v: %v", ir.in.Key(), cs.Path, err), cs)
		return
	}
	if dump.Hash() != ir.truth.Hash() {
		c.Violation("store-open:content-changed", fmt.Sprintf("input %s path %v: database after store.Open differs from newest original snapshot: %s", ir.in.Key(), cs.Path, sqlref.Diff(ir.truth, dump)), cs)
		return
	}
	c.Count("store_open_held", 1)
}

// stateInfo is what is known about one distinct on-disk state of an input.
type stateInfo struct {
	ready    chan struct{} // closed once the verdict of a start from this state is known
	key      string
	hits     int
	expanded int // largest remaining depth this state was expanded with
}

// treeHash identifies the on-disk state of a raft directory: names, directory
// structure and file contents, with the absolute location W (which the plan
// file embeds) normalised away.
func treeHash(W string) string {
	h := sha256.New()
	filepath.Walk(W, func(p string, info os.FileInfo, err error) error {
		if err != nil {
			return nil
		}
		rel, _ := filepath.Rel(W, p)
		if info.IsDir() {
			fmt.Fprintf(h, "D %s\n", rel)
			return nil
		}
		if strings.HasSuffix(p, "-shm") {
			return nil // SQLite shared-memory index: rebuilt on open, content is not state
		}
		b, _ := os.ReadFile(p)
		if strings.HasPrefix(filepath.Base(p), "UPGRADE_8_10_PLAN") {
			b = []byte(strings.ReplaceAll(string(b), W, "@W@"))
		}
		fmt.Fprintf(h, "F %s %x\n", rel, sha256.Sum256(b))
		return nil
	})
	return hex.EncodeToString(h.Sum(nil)[:12])
}

// explore enumerates the crashes of the start performed on the state saved in
// state (a copy of a raft dir), which is reached by the crash path so far. A
// start depends on nothing but the directory contents, so a crashed state that
// was already seen for this input inherits its verdict, and is expanded again
// only if more crash depth remains than when it was expanded before.
func (d *driver) explore(ir *inputRun, W, sdir string, state string, hits int, path []int, points []string, only []int) {
	c := d.c
	logp := filepath.Join(sdir, "log")
	level := len(path) + 1
	first, last := 1, hits
	if len(only) > 0 {
		first, last = only[0], only[0]
	}
	for n := first; n <= last; n++ {
		if err := c07.ResetDir(state, W, sqlref.CopyTree); err != nil {
			c.Inconclusive("copy failed: " + err.Error())
			return
		}
		tr := filepath.Join(sdir, fmt.Sprintf("trace-l%d", level))
		os.Remove(tr)
		_, code, ok := d.child(logp, []string{fmt.Sprintf("VERIF_CRASH_N=%d", n), "VERIF_TRACE=" + tr}, "upgrade", W)
		c.Eval(1)
		if !ok {
			c.Inconclusive("upgrade child timed out")
			continue
		}
		if code != 197 {
			c.Inconclusive(fmt.Sprintf("crash point not reached (exit %d)", code))
			continue
		}
		_, crashed := c07.ReadTrace(tr)
		p := label(crashed, readPlanOps(W))
		d.countPoint(fmt.Sprintf("L%d:%s", level, p))
		c.Count(fmt.Sprintf("crashes_level_%d", level), 1)
		npath := append(append([]int{}, path...), n)
		npoints := append(append([]string{}, points...), p)
		cs := Case{Input: ir.in, Path: npath, Points: npoints}
		c.Nontrivial(fmt.Sprintf("%s/%v", ir.in.Key(), npath))

		remaining := ir.depth - level
		hash := treeHash(W)
		ir.mu.Lock()
		info := ir.seen[hash]
		claimed := info == nil
		if claimed {
			info = &stateInfo{ready: make(chan struct{}), expanded: -1}
			ir.seen[hash] = info
		}
		ir.mu.Unlock()
		if d.replay {
			claimed = true
		}
		next := filepath.Join(sdir, fmt.Sprintf("state-l%d", level))
		wantStore := d.storeRun && level == 1 && !d.replay
		if remaining > 0 || wantStore {
			if err := c07.ResetDir(W, next, sqlref.CopyTree); err != nil {
				c.Inconclusive("copy failed: " + err.Error())
				if claimed && !d.replay {
					info.key = "inconclusive"
					close(info.ready)
				}
				continue
			}
		}
		if claimed {
			cls := stateClass(W)
			key, what, h := d.judge(ir, W, sdir, logp)
			info.key, info.hits = key, h
			if !d.replay {
				close(info.ready)
			}
			c.Count("distinct_states_judged", 1)
			switch {
			case key == "inconclusive":
				c.Inconclusive(what)
			case key != "":
				c.Violation(key, fmt.Sprintf("input %s, crashes at %v (hits %v), state after last crash {%s}: %s", ir.in.Key(), npoints, npath, cls, what), cs)
			default:
				c.Held(1)
			}
			c.Sample(map[string]any{"input": ir.in.Key(), "newest_original": ir.gen, "crash_path": npath, "points": npoints, "state_after_crash": cls, "restart_upgrade_hook_hits": h})
		} else {
			<-info.ready
			c.Count("verdict_inherited_from_identical_state", 1)
			if info.key == "" {
				c.Held(1)
			}
		}
		if wantStore && info.key == "" {
			// additionally let the real store.Store open the crashed state
			if err := c07.ResetDir(next, W, sqlref.CopyTree); err == nil {
				d.storeOpen(ir, W, logp, cs)
			}
		}
		if remaining <= 0 {
			continue
		}
		ir.mu.Lock()
		expand := info.expanded < remaining || d.replay
		if expand {
			info.expanded = remaining
		}
		ir.mu.Unlock()
		if !expand {
			c.Count("subtrees_pruned_identical_state", 1)
			continue
		}
		var o []int
		if len(only) > 1 {
			o = only[1:]
		}
		d.explore(ir, W, sdir, next, info.hits, npath, npoints, o)
	}
}

func inputs(c *vf.Ctx) []*inputRun {
	r := c.Rand(1)
	seed := func() uint64 { return r.Uint64() >> 1 }
	var ins []Input
	ins = append(ins,
		Input{Kind: "v7-fixture"},
		Input{Kind: "v8-fixture"},
		Input{Kind: "v7-gen", Seed: seed(), NSnaps: 1 + r.IntN(3), OlderBare: r.IntN(2) == 0},
		Input{Kind: "v8-gen", Seed: seed(), NSnaps: 1 + r.IntN(3), WALMode: true},
	)
	if !c.Quick() {
		ins = append(ins, Input{Kind: "v7-fixture-empty"},
			Input{Kind: "v8-gen", Seed: seed(), NSnaps: 2, WALMode: false})
		for len(ins) < 30 {
			if r.IntN(2) == 0 {
				ins = append(ins, Input{Kind: "v7-gen", Seed: seed(), NSnaps: 1 + r.IntN(3), OlderBare: r.IntN(2) == 0})
			} else {
				ins = append(ins, Input{Kind: "v8-gen", Seed: seed(), NSnaps: 1 + r.IntN(3), WALMode: r.IntN(3) != 0})
			}
		}
	}
	var out []*inputRun
	for _, in := range ins {
		depth := c.N(2, 3)
		out = append(out, &inputRun{in: in, depth: depth, seen: map[string]*stateInfo{}})
	}
	return out
}

func run(c *vf.Ctx) {
	c.Rule("case = (old-format raft directory, crash path n1[,n2[,n3]]): the start (Upgrade7To8 then Upgrade8To10, called as store.Store.Open calls them) exits at its n1-th hook hit, the next start at its n2-th, ... and a last start runs to the end. Inputs: checked-in v7.20.3 / v9.4.1 fixtures and generated v7 (snapshots/<id>/{meta.json,state.bin = 16-byte header + gzip(SQLite)}, 1-3 snapshots) and v8 (rsnapshots/<id>.db + <id>/meta.json, 1-3 snapshots, WAL- and DELETE-mode files) directories with random schema/data. Every hook hit of every start is enumerated to depth 2 (all inputs) and depth 3 (first 8 inputs, thorough). Non-trivial = child really exited (code 197) at the chosen hit; distinct by (input, path)")
	c.Assume("process-crash model: the process stops at a hook point; all writes issued before it are kept (no torn or lost writes)")
	c.Assume("crash points are the vhook points in snapshot/upgrader.go and snapshot/plan (after each step of 7->8; around plan write, before/after every plan op, before plan removal of 8->10); code between two hooks is atomic")
	c.Assume("'newest original snapshot' = highest (term, index, id) among the snapshots of the old directory; generated inputs always have a complete newest snapshot")
	c.Assume("sqlref logical dump decides 'same database'")

	root := vf.TempDir("c08")
	defer os.RemoveAll(root)
	d := &driver{c: c, pts: map[string]int64{}, storeRun: !c.Quick()}
	bin, err := c07.PrivateBin(root)
	if err != nil {
		c.Logf("cannot copy own binary: %v", err)
		c.Inconclusive("cannot copy own binary")
		return
	}
	d.bin = bin

	if c.ReplayFile != "" {
		var rp struct {
			Case Case `json:"case"`
		}
		b, err := os.ReadFile(c.ReplayFile)
		if err == nil {
			err = json.Unmarshal(b, &rp)
		}
		if err != nil {
			c.Logf("replay: %v", err)
			return
		}
		d.replay = true
		ir := &inputRun{in: rp.Case.Input, dir: filepath.Join(root, "replay"), depth: len(rp.Case.Path), seen: map[string]*stateInfo{}}
		if err := d.prepare(ir); err != nil {
			c.Logf("replay prepare: %v", err)
			return
		}
		if len(rp.Case.Path) > 0 {
			sdir := filepath.Join(ir.dir, "sub")
			os.MkdirAll(sdir, 0755)
			d.explore(ir, filepath.Join(sdir, "raft"), sdir, ir.pristine, ir.hits, nil, nil, rp.Case.Path)
		}
		c.Require(1, 0)
		return
	}

	irs := inputs(c)
	par := c.N(8, 12)
	sem := make(chan struct{}, par)
	var wg sync.WaitGroup
	okRun := make([]bool, len(irs))
	for i, ir := range irs {
		ir.dir = filepath.Join(root, fmt.Sprintf("i%02d", i))
		wg.Add(1)
		sem <- struct{}{}
		go func() {
			defer wg.Done()
			defer func() { <-sem }()
			if err := d.prepare(ir); err != nil {
				c.Logf("input %s: %v", ir.in.Key(), err)
				c.Inconclusive("input preparation failed")
				return
			}
			okRun[i] = true
		}()
	}
	wg.Wait()
	type task struct {
		ir *inputRun
		n  int
	}
	var tasks []task
	for i, ir := range irs {
		if !okRun[i] {
			continue
		}
		c.Count("inputs", 1)
		c.Count("upgrade_hook_hits_recorded", int64(ir.hits))
		for n := 1; n <= ir.hits; n++ {
			tasks = append(tasks, task{ir, n})
		}
	}
	c.Logf("%d inputs prepared, %d first-level crash points", len(irs), len(tasks))
	ch := make(chan task)
	var done int64
	for w := 0; w < par; w++ {
		wg.Add(1)
		go func() {
			defer wg.Done()
			for t := range ch {
				sdir := filepath.Join(t.ir.dir, fmt.Sprintf("n%03d", t.n))
				os.MkdirAll(sdir, 0755)
				d.explore(t.ir, filepath.Join(sdir, "raft"), sdir, t.ir.pristine, t.ir.hits, nil, nil, []int{t.n})
				os.RemoveAll(sdir)
				d.mu.Lock()
				done++
				if done%25 == 0 {
					c.Logf("first-level subtrees %d/%d", done, len(tasks))
				}
				d.mu.Unlock()
			}
		}()
	}
	for _, t := range tasks {
		ch <- t
	}
	close(ch)
	wg.Wait()

	var names []string
	for k := range d.pts {
		names = append(names, k)
	}
	sort.Strings(names)
	pts := map[string]int64{}
	for _, k := range names {
		pts[k] = d.pts[k]
	}
	c.Extra("crash_points_hit", pts)
	var keys []string
	for _, ir := range irs {
		keys = append(keys, fmt.Sprintf("%s depth=%d hits=%d", ir.in.Key(), ir.depth, ir.hits))
	}
	c.Extra("inputs", keys)
	c.Require(int64(c.N(100, 3000)), c.N(100, 3000))
}
