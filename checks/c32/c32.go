// Package c32: membership changes keep node IDs and addresses unique, every
// node has the role it asked for, unresponsive nodes are reaped only after the
// timeout of their role - and never when that timeout is 0 (DESIGN §6 C32).
//
// One worker process per history: up to 4 live in-process nodes (harness A)
// formed by a plain bootstrap or by a notify-driven bootstrap (real
// cluster.Bootstrapper, all nodes concurrently), then a seeded, state-aware
// sequence of membership operations through the real cluster.Joiner /
// cluster.Remover / Bootstrapper paths with address and ID recycling, while a
// poller reads Store.Nodes() on every live node continuously. The worker
// reports observations; the verdicts are computed here.
package c32

import (
	"encoding/json"
	"fmt"
	"os"
	"path/filepath"
	"strings"
	"sync"
	"time"

	"verif/internal/vf"
)

func init() {
	vf.Register("C32", "exploration", run)
	vf.RegisterWorker("c32", worker)
}

const (
	hbTimeout       = 400 * time.Millisecond
	reapShort       = 2 * time.Second // the two reap timeouts a history combines (or 0 = never) ...
	reapLong        = 6 * time.Second // ... far apart, so that a role mix-up is unmistakable
	reapSlack       = 2 * hbTimeout   // removal may precede cut+timeout by at most this
	maxLive         = 4
	contactAgeLimit = hbTimeout // victim must have heard from the leader this recently before the cut
)

type entry struct {
	ID       string `json:"id"`
	Addr     string `json:"addr"`
	Suffrage string `json:"suffrage"` // voter | nonvoter | other
}

type opRec struct {
	N        int     `json:"n"`
	Kind     string  `json:"kind"`
	Target   string  `json:"target,omitempty"` // existing member the op is about
	ID       string  `json:"id,omitempty"`     // id used in the join request
	Addr     string  `json:"addr,omitempty"`   // address used in the join request
	Want     string  `json:"want,omitempty"`   // requested suffrage
	Prev     *entry  `json:"prev,omitempty"`   // entry with this id before the request
	Ack      bool    `json:"ack"`
	Err      string  `json:"err,omitempty"`
	After    *entry  `json:"after,omitempty"`  // entry with this id on the leader right after the ack
	After2   *entry  `json:"after2,omitempty"` // ... and one second later
	Checked  bool    `json:"checked"`          // After/After2 were read from a node that was leader before and after the read
	Skipped  string  `json:"skipped,omitempty"`
	Note     string  `json:"note,omitempty"`
	Ms       float64 `json:"ms"`
	CfgAfter []entry `json:"cfg_after,omitempty"`
}

type dupRec struct {
	Node    string  `json:"node"`
	What    string  `json:"what"` // duplicate-id | duplicate-address
	Value   string  `json:"value"`
	Cfg     []entry `json:"cfg"`
	DuringN int     `json:"during_op"`
	During  string  `json:"during_kind"`
}

type reapRec struct {
	ID           string  `json:"id"`
	Addr         string  `json:"addr"`
	Role         string  `json:"role"`  // suffrage of the entry when the node became unresponsive
	Cause        string  `json:"cause"` // cut | closed
	TimeoutMs    float64 `json:"timeout_ms"`
	RemovedMs    float64 `json:"removed_after_ms"` // first leader observation without the entry, relative to the cut/close
	ContactAgeMs float64 `json:"contact_age_ms"`   // victim's own last-contact age sampled just before the cut (-1 unknown)
	Removed      bool    `json:"removed"`
	Disabled     bool    `json:"role_never_reaped,omitempty"`   // the timeout configured for this role is 0: never remove
	SurvivedMs   float64 `json:"survived_ms,omitempty"`         // role never reaped: still listed on every leader poll for this long
	FailedHBs    int64   `json:"failed_heartbeat_observations"` // rqlite's failed_heartbeat_observed counter, delta over the watch (process-wide)
	ReapedOK     int64   `json:"nodes_reaped_ok"`               // rqlite's nodes_reaped_ok counter, delta over the watch (process-wide)
	Cancelled    string  `json:"cancelled,omitempty"`           // an operation touched the id/address, or the link was healed
	By           string  `json:"observed_on,omitempty"`
	DuringN      int     `json:"during_op"`
}

type histResult struct {
	Case           int       `json:"case"`
	ReapVoterMs    int64     `json:"reap_timeout_ms"`          // ReapTimeout of every node (0 = never)
	ReapNonVoterMs int64     `json:"reap_readonly_timeout_ms"` // ReapReadOnlyTimeout of every node (0 = never)
	Formation      string    `json:"formation"`
	FormedMs       float64   `json:"formed_ms"`
	Ops            []opRec   `json:"ops"`
	Dups           []dupRec  `json:"dups,omitempty"`
	Reaps          []reapRec `json:"reaps,omitempty"`
	Polls          int64     `json:"polls"`
	PollErrs       int64     `json:"poll_errs"`
	Distinct       int       `json:"distinct_configs"`
	MaxEntries     int       `json:"max_entries"`
	SetupErr       string    `json:"setup_err,omitempty"`
	FinalCfg       []entry   `json:"final_cfg,omitempty"`
	BootEntries    []entry   `json:"boot_cfg,omitempty"`
}

func run(c *vf.Ctx) {
	c.Rule("history = formation (single-node bootstrap, or notify-driven bootstrap of 2-3 nodes with BootstrapExpect = that number, all nodes running cluster.Bootstrapper.Boot concurrently) followed by a seeded state-aware sequence of operations from {join voter/non-voter via Joiner, boot-join via Bootstrapper, re-join same ID at a new address (same data dir) with the same / the other suffrage, new node on a used address while the old entry is still present / after it was removed, new node with a used ID, re-join same ID+address asking for the same / the other suffrage, re-notify, remove via Remover, cut a voter / non-voter off (faultnet, or kill it) until reaped, or for max(timeout)+4s when its role is never reaped} on at most 4 live nodes, heartbeat 400ms; the reap configuration (ReapTimeout, ReapReadOnlyTimeout) of a history is one of (2s,6s), (2s,0=never), (0=never,2s), (6s,2s), rotated so that the required cut of each role meets each configuration; Store.Nodes() of every live node is polled continuously and after every op. non-trivial = history with at least one judged re-join/reuse acknowledgement, one observed automatic removal, or one observed survival of an unresponsive node whose role is never reaped; distinct by reap configuration + formation + op sequence")
	c.Assume("a join is 'acknowledged' iff Joiner.Do / Bootstrapper.Boot returned nil; its suffrage is read from a node that was leader before and after the read, right after the ack and again 1 s later; both must differ from the request for a violation")
	c.Assume("removal time = first poll on which a node that is leader before and after the poll no longer lists the entry (later than the real removal, never earlier); cut time = taken just before the faultnet Isolate / Close call; verdict only if the victim itself had heard from the leader less than one heartbeat timeout before the cut, and no operation touched its ID or address meanwhile")
	c.Assume("a role whose timeout is 0 is never reaped: an unresponsive entry of that role must stay listed on every poll of a node that is leader before and after the poll, for as long as no operation touches its ID or address (observed for max(timeout)+4s after the cut); any such poll without it is a violation whatever the elapsed time; a survival counts as judged only if rqlite's failed_heartbeat_observed counter advanced meanwhile (the reaper did look)")
	c.Assume("a refused join (error returned to the joiner) is not an acknowledgement and is not judged")
	// the duplicate detector itself (raft refuses to build such configurations,
	// so no live run can show that it works)
	if w, _ := dupIn([]entry{{ID: "a", Addr: "x"}, {ID: "b", Addr: "y"}, {ID: "a", Addr: "z"}}); w != "duplicate-id" {
		panic("dup detector: id")
	}
	if w, _ := dupIn([]entry{{ID: "a", Addr: "x"}, {ID: "b", Addr: "x"}}); w != "duplicate-address" {
		panic("dup detector: address")
	}
	if w, _ := dupIn([]entry{{ID: "a", Addr: "x"}, {ID: "b", Addr: "y"}}); w != "" {
		panic("dup detector: clean")
	}
	nHist := c.N(8, 120)
	nOps := c.N(8, 14)
	if c.ReplayFile != "" {
		nHist = 3 // the same formation + operation kinds, three times
	}
	tmp := vf.TempDir("c32")
	defer os.RemoveAll(tmp)
	sem := make(chan struct{}, 4)
	var wg sync.WaitGroup
	var mu sync.Mutex
	for i := 0; i < nHist; i++ {
		wg.Add(1)
		go func(i int) {
			defer wg.Done()
			sem <- struct{}{}
			defer func() { <-sem }()
			dir := filepath.Join(tmp, fmt.Sprintf("h%d", i))
			logp := filepath.Join(tmp, fmt.Sprintf("h%d.log", i))
			spec := replaySpec(c.ReplayFile)
			args := []string{fmt.Sprint(i), fmt.Sprint(c.Seed), c.Tier, dir, fmt.Sprint(nOps), spec}
			out, code, ok := vf.RunWorkerOnce(false, "c32", args, nil, logp, 12*time.Minute)
			var r histResult
			found := false
			for _, line := range strings.Split(string(out), "\n") {
				if strings.HasPrefix(line, "{") && json.Unmarshal([]byte(line), &r) == nil {
					found = true
				}
			}
			if os.Getenv("C32_KEEP_LOGS") == "" {
				os.Remove(logp)
			}
			os.RemoveAll(dir)
			mu.Lock()
			defer mu.Unlock()
			c.Eval(1)
			if !found || !ok || code != 0 {
				c.Logf("history %d: exit=%d finished=%v result=%v", i, code, ok, found)
				c.Inconclusive("worker did not finish cleanly")
				if !found {
					return
				}
			}
			judge(c, r)
		}(i)
	}
	wg.Wait()
	if c.ReplayFile != "" {
		c.Require(1, 1)
		return
	}
	c.Require(int64(nHist*2/3), nHist/2)
	if c.Counter("config_observations") < int64(nHist)*200 || c.Counter("join_acks_checked") < int64(nHist) || c.Counter("reaps_judged") == 0 || c.Counter("never_reaped_role_watches_judged") == 0 {
		c.Inconclusive("monitor observed too little")
		c.Require(1<<40, 1<<30)
	}
}

func cfgString(es []entry) string {
	var b strings.Builder
	for _, e := range es {
		fmt.Fprintf(&b, "%s@%s/%s ", e.ID, e.Addr, e.Suffrage)
	}
	return b.String()
}

func judge(c *vf.Ctx, r histResult) {
	if r.SetupErr != "" {
		c.Logf("history %d: %s", r.Case, r.SetupErr)
		c.Inconclusive("setup/timeout: " + firstWords(r.SetupErr))
	}
	c.Count("config_observations", r.Polls)
	c.Count("config_poll_errors", r.PollErrs)
	c.Count("distinct_configs_seen", int64(r.Distinct))
	c.Count("formation:"+r.Formation, 1)
	if r.MaxEntries > 0 {
		c.Count(fmt.Sprintf("max_entries:%d", r.MaxEntries), 1)
	}
	bad := false
	judged := 0
	var kinds []string
	small := r
	small.Dups = nil
	if len(small.Ops) > 14 {
		small.Ops = small.Ops[:14]
	}
	// 1. uniqueness on every observation
	for _, d := range r.Dups {
		bad = true
		c.Violation("config:"+d.What+":during:"+d.During,
			fmt.Sprintf("history %d: node %s listed a configuration with %s %q during op %d (%s): %s", r.Case, d.Node, d.What, d.Value, d.DuringN, d.During, cfgString(d.Cfg)),
			map[string]any{"history": small, "dup": d})
	}
	// 2. acknowledged joins have the requested suffrage
	for _, o := range r.Ops {
		kinds = append(kinds, o.Kind)
		if o.Skipped != "" {
			c.Count("op_skipped:"+o.Kind, 1)
			continue
		}
		c.Count("op:"+o.Kind, 1)
		if o.Kind == "newnode-usedaddr-present" && strings.Contains(o.Note, "first attempt ack=false") {
			c.Count("usedaddr_present_first_attempt_refused", 1)
			if strings.Contains(o.Note, "duplicate address") {
				c.Count("usedaddr_present_first_attempt_refused_duplicate_address", 1)
			}
		} else if o.Kind == "newnode-usedaddr-present" && strings.Contains(o.Note, "first attempt ack=true") {
			c.Count("usedaddr_present_first_attempt_acked", 1)
		}
		if o.Want == "" {
			continue
		}
		if !o.Ack {
			c.Count("join_refused:"+o.Kind, 1)
			if strings.Contains(o.Err, "duplicate address") || strings.Contains(o.Note, "duplicate address") {
				c.Count("join_refused_duplicate_address", 1)
			}
			continue
		}
		c.Count("join_acks", 1)
		if !o.Checked || o.After == nil || o.After2 == nil {
			c.Count("join_ack_not_checked", 1)
			continue
		}
		c.Count("join_acks_checked", 1)
		if o.Kind != "join-voter" && o.Kind != "join-nonvoter" && o.Kind != "form" {
			judged++
		}
		if o.After.Suffrage == o.Want || o.After2.Suffrage == o.Want {
			c.Count("join_ack_suffrage_ok:"+o.Kind, 1)
			continue
		}
		bad = true
		prev := "none"
		if o.Prev != nil {
			prev = o.Prev.Suffrage
		}
		key := "join-ack:wrong-suffrage:" + o.Kind + ":" + prev + "-to-" + o.Want
		if o.Prev != nil && o.Prev.ID == o.ID && o.Prev.Addr == o.Addr {
			key = "rejoin:same-id-same-addr:suffrage-change-ignored"
		}
		c.Violation(key, fmt.Sprintf("history %d op %d (%s): join of id=%s addr=%s asking for %s was acknowledged, but the leader lists it as %s (entry before the request: %s)",
			r.Case, o.N, o.Kind, o.ID, o.Addr, o.Want, o.After2.Suffrage, fmtEntry(o.Prev)), map[string]any{"history": small, "op": o})
	}
	// 3. automatic removal not before the timeout of the role
	reapCfgName := fmt.Sprintf("voter=%dms,nonvoter=%dms", r.ReapVoterMs, r.ReapNonVoterMs)
	c.Count("reap_config:"+reapCfgName, 1)
	for _, rp := range r.Reaps {
		if rp.Disabled {
			// the timeout configured for this role is 0 (never reap): the entry must
			// stay listed for as long as nothing but the reaper could remove it
			switch {
			case rp.Removed && rp.Cancelled == "":
				bad = true
				judged++
				c.Count("reaps_judged", 1)
				c.Count("never_reaped_role_watches_judged", 1)
				c.Violation("reap:role-never-reaped:"+rp.Role, fmt.Sprintf("history %d (%s): %s %s (%s) became unresponsive (%s) and disappeared from the leader's configuration %.0f ms later, although the timeout configured for its role is 0 (never reap) and no operation touched its ID or address (rqlite counters between the cut and this poll: nodes_reaped_ok +%d, failed_heartbeat_observed +%d)",
					r.Case, reapCfgName, rp.Role, rp.ID, rp.Addr, rp.Cause, rp.RemovedMs, rp.ReapedOK, rp.FailedHBs), map[string]any{"history": small, "reap": rp})
			case rp.SurvivedMs > 0 && rp.FailedHBs > 0:
				// only counts if the leader's reaper really looked at failed heartbeats meanwhile
				judged++
				c.Count("reaps_judged", 1)
				c.Count("never_reaped_role_watches_judged", 1)
				c.Count("never_reaped_role_survived:"+rp.Role+":"+rp.Cause, 1)
			case rp.SurvivedMs > 0:
				c.Count("never_reaped_role_survived_without_failed_heartbeat_observation", 1)
			default:
				c.Count("reap_watch_without_removal_or_cancelled", 1)
			}
			continue
		}
		if rp.Cancelled != "" || !rp.Removed {
			c.Count("reap_watch_without_removal_or_cancelled", 1)
			continue
		}
		c.Count("reaps_observed:"+rp.Role+":"+rp.Cause, 1)
		if rp.ContactAgeMs < 0 || rp.ContactAgeMs > float64(contactAgeLimit.Milliseconds()) {
			c.Count("reap_not_judged_victim_contact_too_old", 1)
			continue
		}
		if rp.ReapedOK == 0 {
			// the entry disappeared but rqlite's reaper removed nothing in the whole
			// process during the watch (nodes_reaped_ok unchanged): the removal is the
			// effect of a membership operation, not a reap, and says nothing about the
			// reap timeout
			c.Count("reap_not_judged_removed_without_a_reap", 1)
			continue
		}
		judged++
		c.Count("reaps_judged", 1)
		min := rp.TimeoutMs - float64(reapSlack.Milliseconds())
		if rp.RemovedMs < min {
			bad = true
			c.Violation("reap:too-early:"+rp.Role, fmt.Sprintf("history %d: %s %s (%s) became unresponsive (%s) and was removed %.0f ms later; the timeout for its role is %.0f ms (tolerance %d ms); it had heard from the leader %.0f ms before",
				r.Case, rp.Role, rp.ID, rp.Addr, rp.Cause, rp.RemovedMs, rp.TimeoutMs, reapSlack.Milliseconds(), rp.ContactAgeMs), map[string]any{"history": small, "reap": rp})
		} else {
			c.Count(fmt.Sprintf("reap_ok:%s", rp.Role), 1)
		}
	}
	if judged > 0 {
		c.Nontrivial(reapCfgName + "|" + r.Formation + "|" + strings.Join(kinds, ","))
	}
	if !bad && r.SetupErr == "" {
		c.Held(1)
	}
	c.Sample(small)
}

func fmtEntry(e *entry) string {
	if e == nil {
		return "none"
	}
	return fmt.Sprintf("%s@%s/%s", e.ID, e.Addr, e.Suffrage)
}

func firstWords(s string) string {
	f := strings.Fields(s)
	if len(f) > 4 {
		f = f[:4]
	}
	return strings.Join(f, " ")
}

// replaySpec turns --replay <file | kinds:formation,op,op,...> into the
// worker's forced formation + operation kinds.
func replaySpec(f string) string {
	if f == "" || strings.HasPrefix(f, "kinds:") {
		return f
	}
	b, err := os.ReadFile(f)
	if err != nil {
		panic(err)
	}
	var rf struct {
		Case struct {
			History histResult `json:"history"`
		} `json:"case"`
	}
	if err := json.Unmarshal(b, &rf); err != nil {
		panic(err)
	}
	h := rf.Case.History
	ks := []string{h.Formation}
	if h.ReapVoterMs != 0 || h.ReapNonVoterMs != 0 { // (replay files written before the reap configuration was recorded have neither)
		ks = []string{fmt.Sprintf("reap=%d/%d", h.ReapVoterMs, h.ReapNonVoterMs), h.Formation}
	}
	for _, o := range rf.Case.History.Ops {
		if o.Kind != "form" {
			ks = append(ks, o.Kind)
		}
	}
	return "kinds:" + strings.Join(ks, ",")
}
