// Package c30: values round-trip through the HTTP API without loss (DESIGN §6
// C30). Generated JSON parameter lists are sent over real HTTP to a real
// single-node rqlite; the same statements with the same values are executed by
// the harness, with typed binding, on a plain SQLite database; everything that
// comes back as JSON is compared with what plain SQLite returned.
package c30

import (
	"encoding/json"
	"fmt"
	"os"
	"path/filepath"
	"sort"
	"strings"
	"sync"
	"time"

	"verif/internal/vf"
)

func init() {
	vf.Register("C30", "exploration", run)
	vf.RegisterWorker("c30", worker)
}

const maxWorkers = 4

func run(c *vf.Ctx) {
	c.Rule("case = seeded list of 1-5 JSON parameter values drawn from: int64 (extremes, neighbours of 2^31/2^53/2^62/2^63, random), floats given as literal text (subnormal, -0.0, 1e308, integral floats written 1.0/1e2, more digits than needed, random bit patterns), true/false, null, text (empty, non-ASCII, 4-byte UTF-8, quotes, NUL, control characters, numeric-looking, long, hex-looking strings that are not valid X'..' literals, valid literals padded with whitespace), hex blob literals X'..'/x'..' and byte arrays (empty, invalid UTF-8, long); sent positionally (?, ?NNN) or named (:/@/$, one object or one object per name). Each case: bind probe SELECT typeof(p), p; INSERT of every value into an untyped column and one INTEGER/REAL/TEXT/BLOB column (80 % matching class) via /db/execute or /db/request with/without ?transaction; read back of the columns, of 16 expressions over them and of the same values as SQL literals through /db/query (POST and GET) and /db/request, each in array and ?associative form, with and without ?blob_array, at levels none/weak/linearizable/strong/auto. non-trivial = case containing at least one value that is not a small integer, short ASCII word, boolean or null; distinct by values, parameter style, target columns and insert endpoint")
	c.Assume("reference = the same SQL text and values executed by the harness through database/sql on a plain SQLite file (same SQLite library build), values bound as int64/float64/bool/nil/string/[]byte; its storage class per column comes from sqlite3_column_type")
	c.Assume("the harness's reading of the request grammar: a JSON number without fraction/exponent that fits int64 is an integer, any other finite number a float; a JSON string that is exactly X'<hex pairs>' is a blob, any other string is text (including such a literal with surrounding whitespace); booleans are the integers 1/0 in SQLite")
	c.Assume("outside the property and not judged: columns declared with date/time/boolean types (none are created), text that is not valid UTF-8 (no JSON representation; skipped and counted), Inf/NaN, integers beyond 64 bits; an empty blob and an empty text both read \"\" without ?blob_array (accepted)")

	tmp := vf.TempDir("c30")
	defer os.RemoveAll(tmp)

	if c.ReplayFile != "" {
		out, code, ok := vf.RunWorkerOnce(false, "c30", []string{"replay", c.ReplayFile, filepath.Join(tmp, "r")}, nil, filepath.Join(tmp, "r.log"), 10*time.Minute)
		if !ok || code != 0 {
			c.Inconclusive("replay worker did not finish")
		}
		consume(c, out, nil)
		c.Require(1, 0)
		return
	}

	nCases := c.N(2000, 30000)
	nw := maxWorkers
	per := (nCases + nw - 1) / nw
	var wg sync.WaitGroup
	var mu sync.Mutex
	done := 0
	for w := 0; w < nw; w++ {
		lo, hi := w*per, (w+1)*per
		if hi > nCases {
			hi = nCases
		}
		if lo >= hi {
			continue
		}
		wg.Add(1)
		go func(lo, hi int) {
			defer wg.Done()
			dir := filepath.Join(tmp, fmt.Sprintf("w%d", lo))
			args := []string{fmt.Sprint(lo), fmt.Sprint(hi), fmt.Sprint(c.Seed), c.Tier, dir}
			out, code, ok := vf.RunWorkerOnce(false, "c30", args, nil, filepath.Join(tmp, fmt.Sprintf("w%d.log", lo)), 60*time.Minute)
			os.RemoveAll(dir)
			mu.Lock()
			defer mu.Unlock()
			seen := map[int]bool{}
			consume(c, out, seen)
			if !ok || code != 0 {
				c.Logf("worker %d-%d: exit=%d finished=%v (%d of %d cases reported)", lo, hi, code, ok, len(seen), hi-lo)
				for i := lo; i < hi; i++ {
					if !seen[i] {
						c.Inconclusive("worker did not finish cleanly")
					}
				}
			}
			done += hi - lo
			c.Logf("cases %d-%d done (%d/%d)", lo, hi, done, nCases)
		}(lo, hi)
	}
	wg.Wait()
	c.Require(int64(nCases*3/4), nCases/2)
}

var sampleKinds = map[string]bool{}

// consume judges the worker's output lines.
func consume(c *vf.Ctx, out []byte, seen map[int]bool) {
	for _, line := range strings.Split(string(out), "\n") {
		if strings.TrimSpace(line) == "" {
			continue
		}
		var wo workerOut
		if err := json.Unmarshal([]byte(line), &wo); err != nil {
			c.Logf("unparsable worker line: %v", err)
			continue
		}
		if wo.SetupErr != "" {
			c.Logf("worker setup: %s", wo.SetupErr)
			c.Inconclusive("worker setup: " + firstWords(wo.SetupErr))
			continue
		}
		r := wo.Result
		if r == nil {
			continue
		}
		if seen != nil {
			seen[r.No] = true
		}
		for k, v := range r.Counts {
			c.Count(k, v)
		}
		c.Count("http_requests", int64(r.Requests))
		c.Count("values_compared", int64(r.Comparisons))
		if r.Inconcl != "" {
			c.Logf("case %d inconclusive: %s", r.No, r.Inconcl)
			c.Inconclusive(firstWords(r.Inconcl))
			continue
		}
		c.Eval(1)
		if r.Hard {
			c.Nontrivial(r.Key)
		}
		if r.Case != nil && len(r.Mismatches) == 0 {
			// keep samples of different shapes
			k := fmt.Sprint(r.Case.Named, r.Case.InsEP)
			if !sampleKinds[k] {
				sampleKinds[k] = true
				c.Sample(map[string]any{"case": r.Case, "requests": r.Requests, "values_compared": r.Comparisons})
			}
		}
		if len(r.Mismatches) == 0 {
			c.Held(1)
			continue
		}
		// one report per key and case
		byKey := map[string]Mismatch{}
		n := map[string]int{}
		for _, m := range r.Mismatches {
			if _, ok := byKey[m.Key]; !ok {
				byKey[m.Key] = m
			}
			n[m.Key]++
		}
		keys := make([]string, 0, len(byKey))
		for k := range byKey {
			keys = append(keys, k)
		}
		sort.Strings(keys)
		newOne := false
		for _, k := range keys {
			m := byKey[k]
			c.Count("cases_with:"+k, 1)
			if c.Violation(k, m.What, r) {
				newOne = true
			}
		}
		if !newOne {
			// only known findings in this case: everything else in it agreed
			c.Count("cases_with_known_findings_only", 1)
		}
	}
}

func firstWords(s string) string {
	if i := strings.IndexAny(s, ":\n"); i > 0 {
		s = s[:i]
	}
	if len(s) > 60 {
		s = s[:60]
	}
	return s
}
