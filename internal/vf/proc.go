package vf

import (
	"bufio"
	"encoding/json"
	"errors"
	"fmt"
	"io"
	"os"
	"os/exec"
	"path/filepath"
	"syscall"
	"time"
)

// Self returns the path of the running binary (or of the race variant).
func Self(race bool) string {
	exe, err := os.Executable()
	if err != nil {
		panic(err)
	}
	if race {
		return filepath.Join(filepath.Dir(exe), "vcheck-race")
	}
	return exe
}

// Bin returns the path of a binary under /verif/bin.
func Bin(name string) string {
	if d := os.Getenv("VERIF_BIN"); d != "" {
		return filepath.Join(d, name)
	}
	exe, _ := os.Executable()
	return filepath.Join(filepath.Dir(exe), name)
}

// TempDir creates a scratch directory; the caller removes it.
func TempDir(prefix string) string {
	d, err := os.MkdirTemp("", "verif-"+prefix+"-")
	if err != nil {
		panic(err)
	}
	return d
}

// Proc is a child process speaking line-delimited JSON on stdin/stdout.
type Proc struct {
	Cmd     *exec.Cmd
	in      io.WriteCloser
	out     *bufio.Reader
	LogPath string
	done    chan struct{}
	exit    int
}

// ErrProcDied is returned by Call when the child exited before answering.
var ErrProcDied = errors.New("child process died")

// ErrProcTimeout is returned by Call when the child did not answer in time.
var ErrProcTimeout = errors.New("child process call timed out")

// StartProc starts bin with args; stderr goes to logPath (appended).
func StartProc(bin string, args []string, env []string, logPath string) (*Proc, error) {
	cmd := exec.Command(bin, args...)
	cmd.Env = append(os.Environ(), env...)
	in, err := cmd.StdinPipe()
	if err != nil {
		return nil, err
	}
	out, err := cmd.StdoutPipe()
	if err != nil {
		return nil, err
	}
	if logPath != "" {
		f, err := os.OpenFile(logPath, os.O_CREATE|os.O_WRONLY|os.O_APPEND, 0644)
		if err != nil {
			return nil, err
		}
		cmd.Stderr = f
		defer f.Close()
	}
	cmd.SysProcAttr = &syscall.SysProcAttr{Setpgid: true, Pdeathsig: syscall.SIGKILL}
	if err := cmd.Start(); err != nil {
		return nil, err
	}
	p := &Proc{Cmd: cmd, in: in, out: bufio.NewReaderSize(out, 1<<20), LogPath: logPath, done: make(chan struct{})}
	return p, nil
}

// StartWorker starts `vcheck worker <name> args...` as a JSON-line child.
func StartWorker(race bool, name string, args []string, env []string, logPath string) (*Proc, error) {
	return StartProc(Self(race), append([]string{"worker", name}, args...), env, logPath)
}

// Call sends one request and waits for one response line.
func (p *Proc) Call(req any, resp any, timeout time.Duration) error {
	b, err := json.Marshal(req)
	if err != nil {
		return err
	}
	b = append(b, '\n')
	if _, err := p.in.Write(b); err != nil {
		return ErrProcDied
	}
	type res struct {
		line []byte
		err  error
	}
	ch := make(chan res, 1)
	go func() {
		line, err := p.out.ReadBytes('\n')
		ch <- res{line, err}
	}()
	select {
	case r := <-ch:
		if r.err != nil {
			return ErrProcDied
		}
		if resp != nil {
			if err := json.Unmarshal(r.line, resp); err != nil {
				return fmt.Errorf("bad response %q: %w", r.line, err)
			}
		}
		return nil
	case <-time.After(timeout):
		return ErrProcTimeout
	}
}

// Kill sends SIGKILL to the child (and its process group) and reaps it.
func (p *Proc) Kill() int {
	if p.Cmd.Process != nil {
		syscall.Kill(-p.Cmd.Process.Pid, syscall.SIGKILL)
		p.Cmd.Process.Kill()
	}
	return p.Wait()
}

// Quit sends SIGQUIT (goroutine dump to the log) then kills.
func (p *Proc) Quit() int {
	if p.Cmd.Process != nil {
		p.Cmd.Process.Signal(syscall.SIGQUIT)
		time.Sleep(300 * time.Millisecond)
	}
	return p.Kill()
}

// Wait waits for the child to exit and returns its exit code (-1 if signalled).
func (p *Proc) Wait() int {
	p.in.Close()
	err := p.Cmd.Wait()
	if err == nil {
		return 0
	}
	var ee *exec.ExitError
	if errors.As(err, &ee) {
		return ee.ExitCode()
	}
	return -1
}

// WaitTimeout waits for exit up to d; on timeout the child is killed and
// (code, false) returned.
func (p *Proc) WaitTimeout(d time.Duration) (int, bool) {
	ch := make(chan int, 1)
	go func() { ch <- p.Wait() }()
	select {
	case c := <-ch:
		return c, true
	case <-time.After(d):
		if p.Cmd.Process != nil {
			syscall.Kill(-p.Cmd.Process.Pid, syscall.SIGKILL)
			p.Cmd.Process.Kill()
		}
		return <-ch, false
	}
}

// RunOnce runs bin to completion with a timeout; returns stdout, exit code and
// whether it finished in time. stderr goes to logPath.
func RunOnce(bin string, args []string, env []string, logPath string, timeout time.Duration) ([]byte, int, bool) {
	cmd := exec.Command(bin, args...)
	cmd.Env = append(os.Environ(), env...)
	cmd.SysProcAttr = &syscall.SysProcAttr{Setpgid: true, Pdeathsig: syscall.SIGKILL}
	var f *os.File
	if logPath != "" {
		f, _ = os.OpenFile(logPath, os.O_CREATE|os.O_WRONLY|os.O_APPEND, 0644)
		cmd.Stderr = f
		defer f.Close()
	}
	outPipe, err := cmd.StdoutPipe()
	if err != nil {
		return nil, -1, true
	}
	if err := cmd.Start(); err != nil {
		return nil, -1, true
	}
	var out []byte
	rd := make(chan struct{})
	go func() { out, _ = io.ReadAll(outPipe); close(rd) }()
	done := make(chan error, 1)
	go func() { <-rd; done <- cmd.Wait() }()
	select {
	case err := <-done:
		if err == nil {
			return out, 0, true
		}
		var ee *exec.ExitError
		if errors.As(err, &ee) {
			return out, ee.ExitCode(), true
		}
		return out, -1, true
	case <-time.After(timeout):
		cmd.Process.Signal(syscall.SIGQUIT)
		time.Sleep(200 * time.Millisecond)
		syscall.Kill(-cmd.Process.Pid, syscall.SIGKILL)
		<-done
		return out, -1, false
	}
}

// RunWorkerOnce runs `vcheck worker name args...` to completion.
func RunWorkerOnce(race bool, name string, args []string, env []string, logPath string, timeout time.Duration) ([]byte, int, bool) {
	return RunOnce(Self(race), append([]string{"worker", name}, args...), env, logPath, timeout)
}

// ServeJSON is the worker-side loop: one JSON request per line on stdin, one
// JSON response per line on stdout.
func ServeJSON(handle func(req json.RawMessage) any) {
	rd := bufio.NewReaderSize(os.Stdin, 1<<20)
	w := bufio.NewWriter(os.Stdout)
	for {
		line, err := rd.ReadBytes('\n')
		if len(line) > 0 {
			resp := handle(json.RawMessage(line))
			b, merr := json.Marshal(resp)
			if merr != nil {
				b, _ = json.Marshal(map[string]string{"error": "marshal: " + merr.Error()})
			}
			w.Write(b)
			w.WriteByte('\n')
			w.Flush()
		}
		if err != nil {
			return
		}
	}
}
