// Package c18: every HTTP endpoint and every inter-node command performs its
// action and returns data only for credentials that hold the required
// permission; refused requests have no side effect and disclose nothing
// (DESIGN §6 C18).
package c18

import (
	"encoding/json"
	"fmt"
	"os"
	"path/filepath"
	"sort"
	"strings"
	"sync"
	"time"

	"verif/internal/vf"
)

func init() {
	vf.Register("C18", "exploration", run)
	vf.RegisterWorker("c18", worker)
}

var allPerms = []string{"join", "join-read-only", "join-read-replica", "remove", "execute", "query", "status", "ready", "backup", "load", "snapshot", "leader-ops", "ui"}

// genCase draws one credential store from the small universe {u1, u2, *,
// nameless entry} x {each single permission, subsets, all, none}.
func genCase(c *vf.Ctx, no int) caseDef {
	r := c.Rand(uint64(no))
	cd := caseDef{No: no}
	partition := func() (a, b []string) {
		for _, p := range allPerms {
			if r.IntN(2) == 0 {
				a = append(a, p)
			} else {
				b = append(b, p)
			}
		}
		return
	}
	switch no % 7 {
	case 0:
		cd.Variant = "partition"
		a, b := partition()
		cd.Users = []userDef{{Name: "u1", Pass: "pw-u1", Perms: a}, {Name: "u2", Pass: "pw-u2", Perms: b}}
	case 1:
		cd.Variant = "all-vs-none"
		cd.Users = []userDef{{Name: "u1", Pass: "pw-u1", Perms: []string{"all"}}, {Name: "u2", Pass: "pw-u2"}}
		if r.IntN(2) == 0 {
			cd.Users[0].Perms, cd.Users[1].Perms = nil, []string{"all"}
		}
	case 2:
		cd.Variant = "partition+anonymous"
		a, b := partition()
		var star []string
		for len(star) < 1+r.IntN(3) {
			star = append(star, allPerms[r.IntN(len(allPerms))])
		}
		cd.Users = []userDef{{Name: "u1", Pass: "pw-u1", Perms: a}, {Name: "*", Perms: star}, {Name: "u2", Pass: "pw-u2", Perms: b}}
	case 3:
		cd.Variant = "single-vs-rest"
		p := allPerms[(no/7)%len(allPerms)]
		var rest []string
		for _, q := range allPerms {
			if q != p {
				rest = append(rest, q)
			}
		}
		cd.Users = []userDef{{Name: "u1", Pass: "pw-u1", Perms: []string{p}}, {Name: "u2", Pass: "pw-u2", Perms: rest}}
	case 4:
		cd.Variant = "follower-open"
		cd.FollowerOpen = true
		a, b := partition()
		cd.Users = []userDef{{Name: "u1", Pass: "pw-u1", Perms: a}, {Name: "u2", Pass: "pw-u2", Perms: b}}
	case 5:
		cd.Variant = "pairs"
		// two or three permissions each, possibly overlapping; the rest held by nobody
		pick := func() []string {
			var s []string
			for len(s) < 2+r.IntN(2) {
				s = append(s, allPerms[r.IntN(len(allPerms))])
			}
			return s
		}
		cd.Users = []userDef{{Name: "u1", Pass: "pw-u1", Perms: pick()}, {Name: "u2", Pass: "pw-u2", Perms: pick()}}
		if r.IntN(3) == 0 {
			cd.Users = append(cd.Users, userDef{Name: "*", Perms: []string{"ready"}})
		}
	case 6:
		// A credentials file with an entry that names no user (what a mistyped key
		// such as "user"/"pass" is decoded to): the entry holds permissions, with an
		// empty or a non-empty password. Nobody can authenticate as it: the rule
		// demands that a username was supplied.
		cd.Variant = "nameless-entry"
		a, b := partition()
		nameless := userDef{Name: "", Perms: b}
		if r.IntN(3) == 0 {
			nameless.Pass = "pw-nameless"
		}
		if r.IntN(4) == 0 {
			nameless.Perms = []string{"all"}
		}
		var few []string
		for len(few) < 2+r.IntN(2) {
			few = append(few, allPerms[r.IntN(len(allPerms))])
		}
		cd.Users = []userDef{{Name: "u1", Pass: "pw-u1", Perms: a}, nameless, {Name: "u2", Pass: "pw-u2", Perms: few}}
	}
	return cd
}

func run(c *vf.Ctx) {
	c.Rule("case = one credential store drawn from the universe {u1,u2,*,entry without a username} x {partition of the 13 permissions, all vs none, single vs rest, 2-3 permissions, anonymous grants, nameless entry holding permissions with an empty or non-empty password} installed on a live 2-node in-process cluster (HTTP service and inter-node service of both nodes; one variant leaves the follower without any store so that forwarded requests are decided by the leader's inter-node check alone); request = one of 62 HTTP route/method/parameter combinations (every route of ServeHTTP) sent over a raw socket, or one of 19 raw inter-node frames (every Command type), x credential presentation {none, empty username with empty password (empty Basic auth / empty inter-node Credentials), unknown user, wrong password, empty password, right password of each user, empty username with the right / a wrong password of a nameless entry} x node role {leader, follower}; the expected decision comes from the documented permission table and the C19 rule. non-trivial = request whose verdict was reached (complete response, state compared); distinct by (variant, surface, route, role, presentation, expected decision, store)")
	c.Assume("permission table: execute, query, query+execute for /db/request, backup, load for load and boot, snapshot for snapshot and reap, status for status/nodes/licenses/expvar/pprof, ready, remove, leader-ops, ui; inter-node: the same per command, join for voter join and notify, join-read-only or join-read-replica for non-voter join")
	c.Assume("decision rule (C19): a permission held by '*' needs no credentials; otherwise a username must have been supplied, so an entry of the credentials file without a username authorizes nobody, whatever its password")
	c.Assume("routes and commands without a documented permission (/, /console redirect, OPTIONS, unknown path, GET_NODE_META, LOAD_CHUNK, HIGHWATER_MARK_UPDATE, UNKNOWN) are asserted only to disclose nothing and to change nothing")
	c.Assume("for a method the route does not serve, 401 or 405 both count as refusal")
	c.Assume("state compared around every refused request: logical SQL dump, raft configuration, leader, snapshot directory of both nodes, and the leader's commit index; a leader change under a request that cannot move leadership is inconclusive")
	if c.ReplayFile != "" {
		replay(c)
		return
	}
	n := c.N(7, 161)
	tmp := vf.TempDir("c18")
	defer os.RemoveAll(tmp)
	outs := make([]caseOut, n)
	sem := make(chan struct{}, 4)
	var wg sync.WaitGroup
	for i := 0; i < n; i++ {
		wg.Add(1)
		go func(i int) {
			defer wg.Done()
			sem <- struct{}{}
			defer func() { <-sem }()
			outs[i] = runChild(c, genCase(c, i), tmp)
			c.Logf("case %d (%s): evals=%d held=%d bad=%d %s", i, outs[i].Case.Variant, outs[i].Evals, outs[i].Held, len(outs[i].Bad), outs[i].SetupErr)
		}(i)
	}
	wg.Wait()
	for _, o := range outs {
		judge(c, o)
	}
	if c.Counter("scanner-saw-in-allowed-response:canary:db") == 0 || c.Counter("scanner-saw-in-allowed-response:sqlite-header") == 0 ||
		c.Counter("scanner-saw-in-allowed-response:gzip>sqlite-header") == 0 {
		// the disclosure scanner never recognised protected content even in responses
		// that must contain it: the monitor is disconnected
		c.Logf("scanner self-check failed: %v", "no canary / SQLite header / gzip member seen in allowed responses")
		c.Require(1<<40, 1<<30)
		return
	}
	c.Require(int64(n*400), n*300)
}

func runChild(c *vf.Ctx, cd caseDef, tmp string) caseOut {
	dir := filepath.Join(tmp, fmt.Sprintf("case%d", cd.No))
	os.MkdirAll(dir, 0755)
	defer os.RemoveAll(dir)
	cf := filepath.Join(dir, "case.json")
	b, _ := json.Marshal(cd)
	os.WriteFile(cf, b, 0644)
	of := filepath.Join(dir, "out.json")
	logp := filepath.Join(tmp, fmt.Sprintf("case%d.log", cd.No))
	_, code, ok := vf.RunWorkerOnce(false, "c18", []string{cf, dir, of, fmt.Sprint(c.Seed)}, nil, logp, 20*time.Minute)
	var o caseOut
	ob, err := os.ReadFile(of)
	if err != nil || json.Unmarshal(ob, &o) != nil || !ok || code != 0 {
		tail := ""
		if lb, e := os.ReadFile(logp); e == nil {
			if len(lb) > 1500 {
				lb = lb[len(lb)-1500:]
			}
			tail = string(lb)
		}
		o = caseOut{Case: cd, SetupErr: fmt.Sprintf("worker exit=%d finished=%v err=%v log tail: %s", code, ok, err, tail)}
	}
	if kd := os.Getenv("VERIF_C18_KEEPLOG"); kd != "" {
		os.Rename(logp, filepath.Join(kd, filepath.Base(logp)))
	} else {
		os.Remove(logp)
	}
	return o
}

func judge(c *vf.Ctx, o caseOut) {
	if o.SetupErr != "" {
		c.Eval(1)
		c.Logf("case %d: %s", o.Case.No, o.SetupErr)
		c.Inconclusive("case setup / worker: " + firstLine(o.SetupErr))
	}
	c.Eval(o.Evals)
	c.Held(o.Held)
	for k, v := range o.Counters {
		c.Count(k, v)
	}
	for _, k := range o.Keys {
		c.Nontrivial(k)
	}
	for _, s := range o.Samples {
		c.Sample(map[string]any{"store": o.Case.Users, "variant": o.Case.Variant, "request": s})
	}
	sort.Slice(o.Bad, func(i, j int) bool { return o.Bad[i].Idx < o.Bad[j].Idx })
	for _, b := range o.Bad {
		if len(b.Problems) == 0 {
			c.Inconclusive(strings.SplitN(b.Inconcl, ":", 2)[0])
			continue
		}
		// one violation per request; the most specific failure class names it
		order := map[string]int{"not-refused": 0, "discloses": 1, "side-effect": 2, "authorized-refused": 3}
		sort.SliceStable(b.Problems, func(i, j int) bool { return order[b.Problems[i].Class] < order[b.Problems[j].Class] })
		var all []string
		for _, p := range b.Problems {
			all = append(all, p.Class+": "+p.Detail)
		}
		key := fmt.Sprintf("%s:%s:%s", b.Surface, keyRoute(b), classKey(b))
		if classKey(b) == "authorized-refused" {
			key += "@" + b.Role
		}
		what := fmt.Sprintf("%s %s %s on the %s with credentials %q (store %s; expected %s): %s", b.Surface, b.Route, b.Method+" "+b.Path, b.Role, b.Pres.Name, o.Case.storeJSON(), b.Expected, strings.Join(all, " | "))
		c.Violation(key, what, map[string]any{"case": o.Case, "request": b})
	}
}

// classKey names the failure: a refusal that is followed by data or effects is
// different from a missing refusal.
func classKey(b obs) string {
	has := map[string]bool{}
	for _, p := range b.Problems {
		has[p.Class] = true
	}
	switch {
	case has["not-refused"]:
		return "not-refused"
	case has["discloses"] && b.Expected == "unauthorized":
		return "refused-but-discloses"
	case has["discloses"]:
		return "discloses"
	case has["side-effect"] && b.Expected == "unauthorized":
		return "refused-but-has-side-effect"
	case has["side-effect"]:
		return "side-effect"
	}
	return "authorized-refused"
}

// keyRoute names the handler a finding key refers to: parameter variants of one
// handler (backup format, query level) share a key, different handlers or
// permission rules (JOIN voter / non-voter) do not.
func keyRoute(b obs) string {
	r := strings.ToLower(b.Route)
	if b.Surface == "internode" {
		for _, suf := range []string{":sql", ":strong", ":ro-none"} {
			r = strings.TrimSuffix(r, suf)
		}
		return r
	}
	if b.Surface == "http-fwd" && strings.HasPrefix(r, "backup-") {
		return "backup"
	}
	return r
}

func firstLine(s string) string {
	if i := strings.IndexByte(s, '\n'); i >= 0 {
		s = s[:i]
	}
	if len(s) > 100 {
		s = s[:100]
	}
	return s
}

// replay re-runs the case stored in a replay file and prints what it observed.
func replay(c *vf.Ctx) {
	b, err := os.ReadFile(c.ReplayFile)
	if err != nil {
		panic(err)
	}
	var f struct {
		Case struct {
			Case caseDef `json:"case"`
		} `json:"case"`
	}
	if err := json.Unmarshal(b, &f); err != nil {
		panic(err)
	}
	tmp := vf.TempDir("c18r")
	defer os.RemoveAll(tmp)
	o := runChild(c, f.Case.Case, tmp)
	for _, k := range o.Keys {
		c.Nontrivial(k)
	}
	judge(c, o)
}
