package vf

// Helpers for the concurrency checks (C24, C34, C36 …): race-report scanner
// and a scheduling-stall detector. New file, nothing existing is changed.

import (
	"os"
	"path/filepath"
	"regexp"
	"sort"
	"strings"
	"sync"
	"time"
)

// RaceReport is one de-duplicated `WARNING: DATA RACE` block.
type RaceReport struct {
	Key    string   `json:"key"`     // hash of the two access stacks, line numbers stripped
	StackA []string `json:"stack_a"` // function names of the first access, innermost first
	StackB []string `json:"stack_b"`
	InPkg  int      `json:"in_pkg"` // how many of the two access stacks have a frame in the anchored package(s)
	Pair   string   `json:"pair"`   // innermost anchored-package function of each access, package prefix stripped, sorted: "A<->B" ("?" where a stack has none)
	Count  int      `json:"count"`
	Text   string   `json:"text,omitempty"` // first occurrence, truncated
}

var raceFuncRe = regexp.MustCompile(`^  (\S.*)\(\)$`)

// ScanRaceLogs reads every file `<prefix>.*` written by the Go race runtime
// (GORACE=log_path=<prefix>), splits it into reports and de-duplicates them by
// the pair of access stacks (function names only). A stack counts as being "in"
// the anchored package when any of its frames' function names starts with one of
// pkgFuncPrefixes (e.g. "github.com/rqlite/rqlite/v10/queue."). Returns the
// reports (sorted by key) and the raw number of blocks seen.
func ScanRaceLogs(prefix string, pkgFuncPrefixes []string) ([]RaceReport, int) {
	files, _ := filepath.Glob(prefix + ".*")
	sort.Strings(files)
	byKey := map[string]*RaceReport{}
	blocks := 0
	inPkg := func(st []string) bool {
		for _, f := range st {
			for _, p := range pkgFuncPrefixes {
				if strings.HasPrefix(f, p) {
					return true
				}
			}
		}
		return false
	}
	for _, p := range files {
		b, err := os.ReadFile(p)
		if err != nil {
			continue
		}
		for _, blk := range strings.Split(string(b), "==================") {
			if !strings.Contains(blk, "WARNING: DATA RACE") {
				continue
			}
			blocks++
			// Sections are separated by blank lines; the first two are the accesses.
			var stacks [][]string
			for _, sec := range strings.Split(blk, "\n\n") {
				lines := strings.Split(strings.Trim(sec, "\n"), "\n")
				// drop the WARNING line if it leads the section
				for len(lines) > 0 && (strings.HasPrefix(lines[0], "WARNING:") || strings.TrimSpace(lines[0]) == "") {
					lines = lines[1:]
				}
				if len(lines) == 0 {
					continue
				}
				h := lines[0]
				if strings.HasPrefix(h, "Goroutine ") {
					continue
				}
				if !(strings.Contains(h, " by goroutine ") || strings.Contains(h, " by main goroutine")) {
					continue
				}
				var st []string
				for _, l := range lines[1:] {
					if m := raceFuncRe.FindStringSubmatch(l); m != nil {
						st = append(st, m[1])
					}
				}
				stacks = append(stacks, st)
				if len(stacks) == 2 {
					break
				}
			}
			for len(stacks) < 2 {
				stacks = append(stacks, nil)
			}
			a, bb := strings.Join(stacks[0], "|"), strings.Join(stacks[1], "|")
			if bb < a {
				a, bb = bb, a
				stacks[0], stacks[1] = stacks[1], stacks[0]
			}
			key := Hash(a, bb)
			r := byKey[key]
			if r == nil {
				n := 0
				if inPkg(stacks[0]) {
					n++
				}
				if inPkg(stacks[1]) {
					n++
				}
				txt := strings.TrimSpace(blk)
				if len(txt) > 3000 {
					txt = txt[:3000] + "…"
				}
				inner := func(st []string) string {
					for _, f := range st {
						for _, p := range pkgFuncPrefixes {
							if strings.HasPrefix(f, p) {
								return strings.TrimPrefix(f, p)
							}
						}
					}
					return "?"
				}
				pa, pb := inner(stacks[0]), inner(stacks[1])
				if pb < pa {
					pa, pb = pb, pa
				}
				r = &RaceReport{Key: key, StackA: stacks[0], StackB: stacks[1], InPkg: n, Text: txt, Pair: pa + "<->" + pb}
				byKey[key] = r
			}
			r.Count++
		}
	}
	out := make([]RaceReport, 0, len(byKey))
	for _, r := range byKey {
		out = append(out, *r)
	}
	sort.Slice(out, func(i, j int) bool { return out[i].Key < out[j].Key })
	return out, blocks
}

// Heartbeat records how regularly a trivial goroutine of this process gets to
// run; a large gap means the whole process (or machine) was stalled, so that a
// latency measured over that window says nothing about the code under test.
type Heartbeat struct {
	mu     sync.Mutex
	period time.Duration
	ticks  []time.Time
	stop   chan struct{}
}

// StartHeartbeat starts ticking every period.
func StartHeartbeat(period time.Duration) *Heartbeat {
	h := &Heartbeat{period: period, stop: make(chan struct{}), ticks: []time.Time{time.Now()}}
	go func() {
		for {
			select {
			case <-h.stop:
				return
			default:
			}
			time.Sleep(period)
			now := time.Now()
			h.mu.Lock()
			h.ticks = append(h.ticks, now)
			if len(h.ticks) > 1<<20 {
				h.ticks = append([]time.Time{}, h.ticks[len(h.ticks)/2:]...)
			}
			h.mu.Unlock()
		}
	}()
	return h
}

// Stop ends the heartbeat goroutine.
func (h *Heartbeat) Stop() { close(h.stop) }

// MaxGap returns the largest distance between consecutive ticks (and between
// the window edges and their nearest tick) over [from, to].
func (h *Heartbeat) MaxGap(from, to time.Time) time.Duration {
	h.mu.Lock()
	defer h.mu.Unlock()
	var max time.Duration
	prev := from
	// first tick at or before from
	i := sort.Search(len(h.ticks), func(i int) bool { return h.ticks[i].After(from) })
	if i > 0 {
		prev = h.ticks[i-1]
	}
	for ; i < len(h.ticks); i++ {
		t := h.ticks[i]
		if g := t.Sub(prev); g > max {
			max = g
		}
		prev = t
		if t.After(to) {
			return max
		}
	}
	if g := to.Sub(prev); g > max {
		max = g
	}
	return max
}
