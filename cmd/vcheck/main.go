// Command vcheck is the single driver binary of the verification machinery:
// one sub-command per property plus child-process workers. Each check package
// is linked in by its own imports_cNN.go file in this directory.
package main

import (
	"verif/internal/vf"
)

func main() { vf.Main() }
