// Package c22: loads and boots replace the database everywhere, durably
// (DESIGN §6 C22).
package c22

import (
	"encoding/json"
	"fmt"
	"net/url"
	"os"
	"path/filepath"
	"strings"
	"sync"
	"time"

	"verif/internal/nscript"
	"verif/internal/procnode"
	"verif/internal/sqlref"
	"verif/internal/vf"
)

func init() { vf.Register("C22", "exploration", run) }

type op struct {
	Kind string `json:"kind"` // write | load | load-sql | boot | snapshot | restart | kill-restart | join | remove | bad-load:<variant>
	Arg  int    `json:"arg"`
	Node int    `json:"node"`
}

func (o op) String() string { return fmt.Sprintf("%s(%d)@n%d", o.Kind, o.Arg, o.Node+1) }

type result struct {
	Case     int      `json:"case"`
	Single   bool     `json:"single_node"`
	Ops      []string `json:"ops"`
	Checks   int      `json:"quiescent_checks"`
	Problem  string   `json:"problem,omitempty"`
	Key      string   `json:"key,omitempty"`
	Inconcl  string   `json:"inconclusive,omitempty"`
	LogTail  string   `json:"log_tail,omitempty"`
	Loads    int      `json:"loads"`
	BadLoads int      `json:"bad_loads"`
	Joins    int      `json:"late_joins"`
	Restarts int      `json:"restarts"`
}

func nodeArgs() []string {
	return []string{"-raft-snap", "100000", "-raft-snap-int", "1h", "-raft-snap-wal-size", "0",
		"-raft-heartbeat-timeout", "1s", "-raft-election-timeout", "1s", "-raft-leader-lease-timeout", "800ms"}
}

func tailFile(p string, n int) string {
	b, err := os.ReadFile(p)
	if err != nil {
		return err.Error()
	}
	if len(b) > n {
		b = b[len(b)-n:]
	}
	return string(b)
}

// sqlText renders the SQL dump text equivalent to nscript.LoadedModel(k),
// replacing whatever is in the database.
func sqlText(k int) string {
	m := nscript.LoadedModel(k)
	var b strings.Builder
	b.WriteString("DROP TABLE IF EXISTS c;\nDROP TABLE IF EXISTS t;\n")
	b.WriteString(nscript.Schema[0] + ";\n")
	fmt.Fprintf(&b, "INSERT INTO c(n) VALUES(%d);\n", m.N)
	b.WriteString(nscript.Schema[2] + ";\n")
	for _, t := range m.Tags {
		fmt.Fprintf(&b, "INSERT INTO t(tag, pad) VALUES('%s', x'00ff10');\n", t)
	}
	return b.String()
}

func badLoadBody(variant string, scratch string, k int) []byte {
	switch variant {
	case "random":
		b := make([]byte, 4096)
		for i := range b {
			b[i] = byte(i*131 + k)
		}
		return b
	case "header-only":
		return []byte("SQLite format 3\x00")
	case "truncated", "corrupt-page":
		p := filepath.Join(scratch, fmt.Sprintf("bad-%d.db", k))
		if err := nscript.GenDB(p, k+4); err != nil {
			return nil
		}
		b, _ := os.ReadFile(p)
		os.Remove(p)
		os.Remove(p + "-wal")
		os.Remove(p + "-shm")
		if variant == "truncated" {
			return b[:len(b)/2+100]
		}
		// overwrite the schema page region and a data page with garbage but keep the magic
		for i := 16; i < len(b) && i < 4096+2048; i++ {
			b[i] = byte(0xA5 ^ i)
		}
		return b
	}
	return nil
}

// readLocal reads the model state from one node without involving the others.
func readLocal(n *procnode.Node) (nscript.Model, error) {
	var m nscript.Model
	q := func(sql string) (*procnode.APIResponse, error) {
		r := n.Do("GET", "/db/query?level=none&q="+url.QueryEscape(sql), nil, "")
		a, err := r.Parse()
		if err != nil {
			return nil, err
		}
		if r.Status != 200 || a.Error != "" {
			return nil, fmt.Errorf("status %d error %q", r.Status, a.Error)
		}
		return a, nil
	}
	a, err := q("SELECT n FROM c")
	if err != nil {
		return m, err
	}
	if len(a.Results) != 1 {
		return m, fmt.Errorf("bad result")
	}
	if a.Results[0].Error != "" {
		if strings.Contains(a.Results[0].Error, "no such table") {
			return nscript.Model{}, nil
		}
		return m, fmt.Errorf("%s", a.Results[0].Error)
	}
	if len(a.Results[0].Values) != 1 {
		return m, fmt.Errorf("table c has %d rows", len(a.Results[0].Values))
	}
	m.Init = true
	if num, ok := a.Results[0].Values[0][0].(json.Number); ok {
		m.N, _ = num.Int64()
	}
	a, err = q("SELECT tag FROM t ORDER BY id")
	if err != nil {
		return m, err
	}
	if len(a.Results) != 1 || a.Results[0].Error != "" {
		return m, fmt.Errorf("tags: %+v", a.Results)
	}
	for _, row := range a.Results[0].Values {
		m.Tags = append(m.Tags, fmt.Sprint(row[0]))
	}
	return m, nil
}

func genOps(c *vf.Ctx, i int, single bool) []op {
	r := c.Rand(uint64(i))
	kinds := []string{"write", "write", "write", "load", "load-sql", "snapshot", "restart", "kill-restart", "bad-load"}
	if single {
		// single-node histories can boot, and later grow: a node that joins after a
		// boot must end up with the booted database, with ("join") or without
		// ("join-plain") the log having been truncated first
		kinds = append(kinds, "boot", "boot", "join-plain", "join")
	} else {
		kinds = append(kinds, "join", "join-plain", "remove", "load")
	}
	ops := []op{{Kind: "write", Arg: 0}}
	w, l := 1, 0
	dk := (i / 3) % 3 // which directed prefix a single-node history gets
	if single && dk == 0 {
		// directed: write, boot, write, plain join (no truncation), ...
		ops = append(ops, op{Kind: "write", Arg: 1}, op{Kind: "boot", Arg: 0}, op{Kind: "write", Arg: 2}, op{Kind: "join-plain"})
		w, l = 3, 1
	}
	motif := []string{"write", "write", "write", "snapshot", "write", "write", "write", "snapshot", "load", "write", "snapshot", "write", "snapshot", "write", "join"}
	if dk == 2 {
		// directed: a load applied by a freshly restarted process (started from its
		// fingerprinted database file, with snapshots already in the store), then
		// writes and a snapshot, then a node that joins by snapshot
		motif = []string{"write", "write", "snapshot", "write", "restart", "load", "write", "write", "snapshot", "write", "join"}
	}
	if single && dk >= 1 {
		// directed (dk == 1): incremental snapshots before a load that are still in the
		// store when the load's full snapshot and later incrementals arrive, so
		// that the automatic reap consolidates across the load; then a node joins
		// by snapshot and has to end up with the loaded database plus later writes
		for _, k := range motif {
			o := op{Kind: k}
			switch k {
			case "write":
				o.Arg = w
				w++
			case "load":
				o.Arg = l
				l++
			}
			ops = append(ops, o)
		}
	}
	n := c.N(9, 15)
	joined := single
	for j := 0; j < n; j++ {
		k := kinds[r.IntN(len(kinds))]
		o := op{Kind: k, Node: r.IntN(3)}
		switch k {
		case "write":
			o.Arg = w
			w++
		case "load", "load-sql", "boot":
			o.Arg = l
			l++
		case "bad-load":
			o.Kind = "bad-load:" + []string{"random", "header-only", "truncated", "corrupt-page", "empty"}[r.IntN(5)]
			o.Arg = j
		case "join", "join-plain":
			if joined {
				o.Kind = "write"
				o.Arg = w
				w++
			}
			joined = true
		}
		if o.Kind == "boot" && joined {
			o.Kind = "load" // boot needs a single-node cluster
		}
		ops = append(ops, o)
	}
	return ops
}

func runHistory(c *vf.Ctx, dir string, i int) (res result) {
	single := i%3 == 2
	res.Case, res.Single = i, single
	ops := genOps(c, i, single)
	scratch := filepath.Join(dir, "scratch")
	os.MkdirAll(scratch, 0755)
	var nodes []*procnode.Node
	defer func() {
		for _, n := range nodes {
			n.Kill()
		}
	}()
	nn := 3
	if single {
		nn = 1
	}
	for k := 0; k < nn; k++ {
		nd := procnode.New(fmt.Sprintf("n%d", k+1), filepath.Join(dir, fmt.Sprintf("n%d", k+1)))
		nd.Args = nodeArgs()
		var err error
		if k == 0 {
			err = nd.Start()
		} else {
			err = nd.Start(nodes[0].RaftAddr)
		}
		if err == nil {
			err = nd.WaitReady(60 * time.Second)
		}
		if err != nil {
			res.Inconcl = fmt.Sprintf("start n%d: %v", k+1, err)
			return
		}
		nodes = append(nodes, nd)
	}
	removed := map[*procnode.Node]bool{}
	live := func() []*procnode.Node {
		var out []*procnode.Node
		for _, n := range nodes {
			if n.Running() && !removed[n] {
				out = append(out, n)
			}
		}
		return out
	}
	model := nscript.Model{}
	if out, msg := nscript.Exec(nodes[0], nscript.Op{Kind: "init"}, scratch); out != nscript.Acked {
		res.Inconcl = "init: " + msg
		return
	}
	model = model.Apply(nscript.Op{Kind: "init"})
	marker := 0
	// quiesce: marker write, every live node must see it locally, then compare.
	verify := func(after string) bool {
		marker++
		deadline := time.Now().Add(90 * time.Second)
		var up *procnode.Node
		for {
			ok := false
			for _, n := range live() {
				r := n.PostJSON("/db/execute", []any{"CREATE TABLE IF NOT EXISTS marker (k INTEGER)", fmt.Sprintf("INSERT INTO marker(k) VALUES(%d)", marker)})
				if r.OK() {
					ok, up = true, n
					break
				}
			}
			if ok {
				break
			}
			if time.Now().After(deadline) {
				res.Problem = fmt.Sprintf("after %s: no node accepts a write any more", after)
				res.Key = "cluster-unusable-after:" + strings.SplitN(after, "(", 2)[0]
				if len(live()) > 0 {
					res.LogTail = tailFile(live()[0].LogPath, 2500)
				}
				return false
			}
			time.Sleep(300 * time.Millisecond)
		}
		_ = up
		for _, n := range live() {
			for {
				r := n.Do("GET", "/db/query?level=none&q="+url.QueryEscape("SELECT max(k) FROM marker"), nil, "")
				if a, err := r.Parse(); err == nil && len(a.Results) == 1 && len(a.Results[0].Values) == 1 {
					if num, ok := a.Results[0].Values[0][0].(json.Number); ok {
						if v, _ := num.Int64(); v >= int64(marker) {
							break
						}
					}
				}
				if time.Now().After(deadline) {
					res.Problem = fmt.Sprintf("after %s: node %s never applied marker %d", after, n.ID, marker)
					res.Key = "node-stuck-after:" + strings.SplitN(after, "(", 2)[0]
					res.LogTail = tailFile(n.LogPath, 2500)
					return false
				}
				time.Sleep(100 * time.Millisecond)
			}
			got, err := readLocal(n)
			if err != nil {
				res.Problem = fmt.Sprintf("after %s: cannot read node %s: %v", after, n.ID, err)
				res.Key = "node-unreadable-after:" + strings.SplitN(after, "(", 2)[0]
				return false
			}
			if !got.Equal(model) {
				res.Problem = fmt.Sprintf("after %s: node %s has {%s}, model says {%s}", after, n.ID, got, model)
				res.Key = "state-mismatch-after:" + strings.SplitN(after, "(", 2)[0]
				return false
			}
		}
		res.Checks++
		return true
	}
	nextID := nn + 1
	for _, o := range ops {
		lv := live()
		if len(lv) == 0 {
			res.Inconcl = "no live nodes"
			return
		}
		target := lv[o.Node%len(lv)]
		res.Ops = append(res.Ops, o.String())
		switch {
		case o.Kind == "write" || o.Kind == "load" || o.Kind == "boot" || o.Kind == "snapshot":
			nop := nscript.Op{Kind: o.Kind, Arg: o.Arg}
			if o.Kind == "boot" || o.Kind == "snapshot" {
				target = lv[0]
			}
			out, msg := nscript.Exec(target, nop, scratch)
			switch out {
			case nscript.Acked:
				model = model.Apply(nop)
				if o.Kind == "load" || o.Kind == "boot" {
					res.Loads++
				}
			case nscript.Unknown:
				if o.Kind == "snapshot" {
					continue
				}
				res.Inconcl = fmt.Sprintf("%s: unknown outcome: %s", o, msg)
				return
			}
		case o.Kind == "load-sql":
			r := target.Do("POST", "/db/load", []byte(sqlText(o.Arg)), "text/plain")
			a, err := r.Parse()
			if err != nil || r.Status != 200 || a.Error != "" {
				res.Inconcl = fmt.Sprintf("%s: %v %d %s", o, err, r.Status, r.Body)
				return
			}
			bad := false
			for _, x := range a.Results {
				if x.Error != "" {
					bad = true
				}
			}
			if bad {
				res.Problem = fmt.Sprintf("%s: SQL-text load of a valid dump reported a statement error: %s", o, r.Body)
				res.Key = "load-sql:statement-error"
				return
			}
			model = nscript.LoadedModel(o.Arg)
			res.Loads++
		case strings.HasPrefix(o.Kind, "bad-load:"):
			variant := strings.TrimPrefix(o.Kind, "bad-load:")
			var body []byte
			if variant != "empty" {
				body = badLoadBody(variant, scratch, o.Arg)
				if body == nil {
					continue
				}
			}
			res.BadLoads++
			r := target.Do("POST", "/db/load", body, "application/octet-stream")
			accepted := false
			if r.Err == nil && r.Status == 200 {
				if a, err := r.Parse(); err == nil && a.Error == "" {
					accepted = true
					for _, x := range a.Results {
						if x.Error != "" {
							accepted = false
						}
					}
				}
			}
			if accepted && variant != "empty" {
				res.Problem = fmt.Sprintf("%s: invalid load data was accepted (200, no error): %.200s", o, r.Body)
				res.Key = "invalid-load-accepted:" + variant
				return
			}
			// state must be unchanged everywhere: checked by verify below
			if !verify(o.String()) {
				if res.Key != "" {
					res.Key = "invalid-load:" + variant + ":" + res.Key
				}
				return
			}
			continue
		case o.Kind == "restart" || o.Kind == "kill-restart":
			if o.Kind == "restart" {
				if _, ok := target.Stop(60 * time.Second); !ok {
					res.Inconcl = "graceful stop timed out"
					return
				}
			} else {
				target.Kill()
			}
			res.Restarts++
			if err := target.Start(); err != nil {
				res.Inconcl = "restart: " + err.Error()
				return
			}
			if err := target.WaitReady(90 * time.Second); err != nil {
				if err == procnode.ErrPortInUse {
					res.Inconcl = "port in use"
					return
				}
				res.Problem = fmt.Sprintf("%s: node does not come back: %v", o, err)
				res.Key = "restart-failed"
				res.LogTail = tailFile(target.LogPath, 2500)
				return
			}
		case o.Kind == "join" || o.Kind == "join-plain":
			if o.Kind == "join" {
				// force the late joiner to arrive by snapshot: truncate logs first
				for _, n := range lv {
					n.Do("POST", "/snapshot?trailing_logs=1", nil, "")
				}
			}
			nd := procnode.New(fmt.Sprintf("n%d", nextID), filepath.Join(dir, fmt.Sprintf("n%d", nextID)))
			nextID++
			nd.Args = nodeArgs()
			var addrs []string
			for _, n := range lv {
				addrs = append(addrs, n.RaftAddr)
			}
			if err := nd.Start(addrs...); err != nil {
				res.Inconcl = "join: " + err.Error()
				return
			}
			nodes = append(nodes, nd)
			if err := nd.WaitReady(90 * time.Second); err != nil {
				if err == procnode.ErrPortInUse {
					res.Inconcl = "port in use"
					return
				}
				res.Problem = fmt.Sprintf("%s: joining node does not become ready: %v", o, err)
				res.Key = "late-join-failed"
				res.LogTail = tailFile(nd.LogPath, 2500)
				return
			}
			res.Joins++
		case o.Kind == "remove":
			if len(lv) <= 2 {
				continue
			}
			victim := lv[len(lv)-1]
			r := lv[0].Do("DELETE", "/remove", []byte(fmt.Sprintf(`{"id":%q}`, victim.ID)), "application/json")
			if r.Err != nil || r.Status != 200 {
				continue // leader moved or similar: not part of this property
			}
			removed[victim] = true
			victim.Kill()
		}
		if !verify(o.String()) {
			return
		}
	}
	return
}

func run(c *vf.Ctx) {
	c.Rule("history = seeded sequence of 10-16 ops from {uniquely tagged non-idempotent write, load of a generated SQLite file (WAL- and DELETE-mode), load of the equivalent SQL dump text, boot (single-node histories), user snapshot, graceful restart, killed restart, late join with and without prior log truncation (also onto a booted single node), remove, invalid load (random bytes, header only, truncated file, corrupted pages behind a valid header, empty body)} on clusters of 1 or 3 real rqlited processes, requests sent to any node; after every op a marker barrier makes every live node apply the same prefix and each node's local state (level=none) must equal the model: last loaded database plus later acknowledged writes; an invalid load must be rejected and leave every node unchanged and usable. non-trivial = history with at least one successful load/boot followed by a restart, late join or snapshot; distinct by case")
	c.Assume("model state = counter + ordered tag list (tables c, t); loads replace both")
	nH := c.N(9, 90)
	tmp := vf.TempDir("c22")
	defer os.RemoveAll(tmp)
	results := make([]result, nH)
	sem := make(chan struct{}, c.N(3, 4))
	var wg sync.WaitGroup
	for i := 0; i < nH; i++ {
		wg.Add(1)
		go func(i int) {
			defer wg.Done()
			sem <- struct{}{}
			defer func() { <-sem }()
			dir := filepath.Join(tmp, fmt.Sprintf("h%d", i))
			os.MkdirAll(dir, 0755)
			if v := os.Getenv("C22_ONLY"); v != "" && v != fmt.Sprint(i) {
				results[i] = result{Case: i, Inconcl: "skipped: C22_ONLY"}
				return
			}
			results[i] = runHistory(c, dir, i)
			if k := os.Getenv("C22_KEEP"); k != "" {
				sqlref.CopyTree(dir, filepath.Join(k, fmt.Sprintf("h%d", i)))
			}
			os.RemoveAll(dir)
		}(i)
	}
	wg.Wait()
	for _, res := range results {
		c.Eval(1)
		c.Count("quiescent_checks", int64(res.Checks))
		c.Count("loads", int64(res.Loads))
		c.Count("bad_loads", int64(res.BadLoads))
		c.Count("late_joins", int64(res.Joins))
		c.Count("restarts", int64(res.Restarts))
		if res.Loads > 0 && (res.Restarts > 0 || res.Joins > 0) {
			c.Nontrivial(strings.Join(res.Ops, ","))
		}
		if res.Inconcl != "" {
			c.Logf("case %d: %s", res.Case, res.Inconcl)
			c.Inconclusive(strings.SplitN(res.Inconcl, ":", 2)[0])
			continue
		}
		if res.Problem != "" {
			c.Violation(res.Key, fmt.Sprintf("history %d ops %v: %s", res.Case, res.Ops, res.Problem), res)
			continue
		}
		c.Held(1)
		c.Sample(res)
	}
	c.Require(int64(nH*2/3), 2)
	_ = sqlref.FileHash
}
