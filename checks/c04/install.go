package c04

import (
	"context"
	"errors"
	"fmt"
	"os"
	"path/filepath"
	"time"

	"github.com/rqlite/rqlite/v10/command/proto"
	"github.com/rqlite/rqlite/v10/snapshot"
	"github.com/rqlite/rqlite/v10/store"
	"verif/internal/hcluster"
)

// doInstall makes the node under test install a snapshot sent by a Leader, as a
// lagging follower does: two fresh voters join, one of them takes over
// leadership, the node under test is cut off, the new Leader writes (overwriting
// pages the node under test has) and truncates its log with a snapshot, the link
// is healed (InstallSnapshot), leadership is handed back and the two helpers are
// removed again, so that the node is a single-node cluster afterwards and every
// other op (and the rebuild oracle) works as before.
//
// The note says whether a snapshot was really installed ("installed") or the
// node merely caught up through the log ("caught up by log").
func doInstall(arg int) (note string, err error) {
	n1 := wnode
	if !n1.Store.IsLeader() {
		return "", errors.New("node under test is not the leader before install")
	}
	// Other nodes reach this one at the address in the configuration; if a
	// restart moved it (port taken meanwhile) the op is not performed.
	if nodes, err := n1.Store.Nodes(); err == nil {
		for _, nd := range nodes {
			if nd.ID == n1.ID && nd.Addr != n1.RaftAddr {
				return "install not performed: raft address differs from the configuration", nil
			}
		}
	}
	var peers []*hcluster.Node
	cleanup := func() {
		wcl.Net.HealAll()
		for _, p := range peers {
			p.Close()
			os.RemoveAll(p.Dir)
		}
		wcl.Nodes = []*hcluster.Node{wnode}
	}
	for k := 2; k <= 3; k++ {
		id := fmt.Sprintf("p%d-%d", k, arg)
		o := hcluster.Options{ID: id, Dir: filepath.Join(wdir+"-scratch", id), NoSnapshotOnClose: true, ReapThreshold: 1000,
			SnapshotThreshold: 1 << 30, SnapshotInterval: time.Hour,
			Tune: func(s *store.Store) { s.SnapshotThresholdWALSize = 0 }}
		os.RemoveAll(o.Dir)
		p, err := hcluster.NewNode(wcl.Net, o)
		if err != nil {
			cleanup()
			return "", fmt.Errorf("install: helper %s: %w", id, err)
		}
		peers = append(peers, p)
		wcl.Nodes = append(wcl.Nodes, p)
		if err := wcl.Join(p, true); err != nil {
			// cannot leave a half-joined voter behind: try to remove it
			n1.Store.Remove(context.Background(), &proto.RemoveNodeRequest{Id: id})
			cleanup()
			return "", fmt.Errorf("install: %w", err)
		}
	}
	p2, p3 := peers[0], peers[1]
	removeHelpers := func() error {
		// hand leadership back to the node under test and shrink to one node
		deadline := time.Now().Add(40 * time.Second)
		for !n1.Store.IsLeader() && time.Now().Before(deadline) {
			if l := wcl.Leader(); l != nil && l != n1 {
				l.Store.Stepdown(true, n1.ID)
			}
			time.Sleep(100 * time.Millisecond)
		}
		if !n1.Store.IsLeader() {
			return errors.New("node under test does not regain leadership")
		}
		for _, p := range []*hcluster.Node{p3, p2} {
			var err error
			for i := 0; i < 40; i++ {
				if err = n1.Store.Remove(context.Background(), &proto.RemoveNodeRequest{Id: p.ID}); err == nil {
					break
				}
				time.Sleep(250 * time.Millisecond)
			}
			if err != nil {
				return fmt.Errorf("remove %s: %w", p.ID, err)
			}
		}
		return nil
	}
	fail := func(e error) (string, error) {
		wcl.Net.HealAll()
		if rerr := removeHelpers(); rerr != nil {
			cleanup()
			return "", fmt.Errorf("install: %v; and cannot return to a single node: %v", e, rerr)
		}
		cleanup()
		return "install not performed: " + e.Error(), nil
	}
	if !wcl.WaitConverged(30 * time.Second) {
		return fail(errors.New("helpers do not catch up"))
	}
	// leadership to p2
	deadline := time.Now().Add(30 * time.Second)
	for !p2.Store.IsLeader() && time.Now().Before(deadline) {
		if l := wcl.Leader(); l != nil && l != p2 {
			l.Store.Stepdown(true, p2.ID)
		}
		time.Sleep(100 * time.Millisecond)
	}
	if !p2.Store.IsLeader() {
		return fail(errors.New("helper does not become leader"))
	}
	snapDir := filepath.Join(wdir, "wsnapshots")
	beforeIdx, _, _ := snapshot.LatestIndexTerm(snapDir)
	wcl.Net.Isolate(n1.Name, wcl.Names())
	// writes on the new leader while the node under test is cut off
	var werr error
	for tries := 0; tries < 20; tries++ {
		if !p2.Store.IsLeader() {
			time.Sleep(200 * time.Millisecond)
			continue
		}
		werr = exec(p2, true,
			fmt.Sprintf("INSERT OR REPLACE INTO big1(id, v) VALUES(%d, %s)", arg%5, det(30000, arg+1)),
			fmt.Sprintf("INSERT OR REPLACE INTO big2(id, v) VALUES(%d, %s)", arg%3, det(18000, arg+8)),
			fmt.Sprintf("UPDATE t SET pad = %s WHERE id %% 3 = %d", det(300+arg%50, arg+4), arg%3),
			fmt.Sprintf("INSERT INTO t(tag, pad) VALUES('i%d', %s)", arg, det(4000, arg+12)),
			"UPDATE c SET n=n+1")
		if werr == nil {
			break
		}
		time.Sleep(200 * time.Millisecond)
	}
	if werr != nil {
		return fail(fmt.Errorf("write on helper leader: %w", werr))
	}
	if err := exec(p2, true, fmt.Sprintf("INSERT INTO t(tag, pad) VALUES('j%d', %s)", arg, det(100, arg)), "UPDATE c SET n=n+1"); err != nil {
		return fail(fmt.Errorf("write on helper leader: %w", err))
	}
	// truncate the leader's log so that the node under test cannot catch up from it
	if err := p2.Store.Snapshot(1); err != nil {
		return fail(fmt.Errorf("snapshot on helper leader: %w", err))
	}
	target := p2.Store.DBAppliedIndex()
	wcl.Net.HealAll()
	deadline = time.Now().Add(60 * time.Second)
	for n1.Store.DBAppliedIndex() < target && time.Now().Before(deadline) {
		time.Sleep(50 * time.Millisecond)
	}
	if n1.Store.DBAppliedIndex() < target {
		return fail(errors.New("node under test does not catch up after heal"))
	}
	afterIdx, _, _ := snapshot.LatestIndexTerm(snapDir)
	note = "caught up by log"
	if afterIdx > beforeIdx {
		note = "installed"
	}
	if err := removeHelpers(); err != nil {
		cleanup()
		return note, fmt.Errorf("install: cannot return to a single node: %w", err)
	}
	cleanup()
	// single node again: wait until it leads
	deadline = time.Now().Add(30 * time.Second)
	for !n1.Store.IsLeader() && time.Now().Before(deadline) {
		time.Sleep(50 * time.Millisecond)
	}
	if !n1.Store.IsLeader() {
		return note, errors.New("install: node under test is not the leader of the single-node cluster afterwards")
	}
	return note, nil
}
